#!/bin/sh
# development helper: build the harness into the driver's target dir
cd /verif/harness && CARGO_TARGET_DIR=/verif/target/main cargo build --offline --profile "${1:-ubcheck}" --bins --message-format short 2>&1 | grep -E "^(src/|error)|Finished" -A7
