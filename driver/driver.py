"""Core of the check driver: builds, sharded worker execution, abort attribution, verdicts,
evidence. Python 3 standard library only."""
import fcntl
import hashlib
import json
import os
import shutil
import signal
import subprocess
import sys
import time

VERIF = os.path.dirname(os.path.dirname(os.path.abspath(__file__)))
HARNESS = os.path.join(VERIF, "harness")
TARGET = os.path.join(VERIF, "target")
RUNDIR = os.path.join(TARGET, "run")
REPLAYS = os.path.join(VERIF, "replays")
EVIDENCE = os.path.join(VERIF, "evidence")
NPROC = min(16, os.cpu_count() or 4)
TRIPLE = "x86_64-unknown-linux-gnu"

BASE_ENV = dict(os.environ)
BASE_ENV.update({"CARGO_NET_OFFLINE": "true", "RUST_BACKTRACE": "0", "CARGO_TERM_COLOR": "never"})
BASE_ENV.pop("RUSTFLAGS", None)
HOOK = "--cfg priority_queue_verif"


class Inconclusive(Exception):
    pass


# ------------------------------------------------------------------------------------------------
# builds

FLAVOURS = {
    # name: (target subdir, cargo argv, env additions, relative path of the worker binary)
    "ubcheck": ("main", ["cargo", "build", "--offline", "--profile", "ubcheck", "--bins"], {}, "ubcheck"),
    "release": ("main", ["cargo", "build", "--offline", "--release", "--bins"], {}, "release"),
    "boxrel": ("box", ["cargo", "build", "--offline", "--release", "--bins", "--features", "boxtok"], {}, "release"),
    "asan": (
        "asan",
        ["cargo", "+nightly", "build", "--offline", "--release", "--bins", "--features", "boxtok", "--target", TRIPLE],
        {"RUSTFLAGS": HOOK + " -Zsanitizer=address -Cforce-frame-pointers=yes"},
        os.path.join(TRIPLE, "release"),
    ),
    "miri": ("miri", None, {}, None),
}
_built = set()


def build(flavour, log):
    """(Re)build one flavour of the harness from /repo's current working tree."""
    if flavour in _built or flavour == "miri":
        return
    sub, argv, envadd, _ = FLAVOURS[flavour]
    tdir = os.path.join(TARGET, sub)
    os.makedirs(tdir, exist_ok=True)
    env = dict(BASE_ENV)
    env.update(envadd)
    env["CARGO_TARGET_DIR"] = tdir
    t0 = time.time()
    with open(os.path.join(TARGET, ".buildlock-" + sub), "w") as lk:
        fcntl.flock(lk, fcntl.LOCK_EX)
        p = subprocess.run(argv, cwd=HARNESS, env=env, stdout=subprocess.PIPE, stderr=subprocess.STDOUT, text=True)
    log.write("== build %s: rc=%d in %.1fs\n" % (flavour, p.returncode, time.time() - t0))
    if p.returncode != 0:
        log.write(p.stdout[-6000:])
        raise Inconclusive("build of flavour %s failed (see %s)" % (flavour, log.name))
    _built.add(flavour)


def worker_path(flavour, binary="worker"):
    sub, _, _, rel = FLAVOURS[flavour]
    return os.path.join(TARGET, sub, rel, binary)


def miri_cmd(binary, args, tree_borrows=False):
    flags = "-Zmiri-disable-isolation -Zmiri-ignore-leaks" if False else "-Zmiri-disable-isolation"
    if tree_borrows:
        flags += " -Zmiri-tree-borrows"
    env = dict(BASE_ENV)
    env["MIRIFLAGS"] = flags
    env["CARGO_TARGET_DIR"] = os.path.join(TARGET, "miri-tb" if tree_borrows else "miri")
    argv = ["cargo", "+nightly", "miri", "run", "--offline", "--features", "boxtok", "--bin", binary, "--"] + args
    return argv, env


# ------------------------------------------------------------------------------------------------
# jobs


class Job:
    """One sharded worker invocation.

    build: flavour name; mode: worker mode; args: dict of key=value; shards: number of processes;
    wrap: None | 'memcheck' | 'cachegrind'; restartable: episode-structured (journal + start=)
    """

    def __init__(self, name, build, mode, args, shards=1, wrap=None, restartable=True, timeout=900, binary="worker", tb=False, env=None, miri_leaks_ok=False):
        self.name, self.build, self.mode, self.args = name, build, mode, dict(args)
        self.shards, self.wrap, self.restartable, self.timeout = shards, wrap, restartable, timeout
        self.binary, self.tb, self.env = binary, tb, env or {}
        self.miri_leaks_ok = miri_leaks_ok


class Proc:
    def __init__(self, job, shard, seed, extra=None, tag=""):
        self.job, self.shard, self.seed = job, shard, seed
        self.extra = dict(extra or {})
        self.tag = tag
        self.restarts = 0
        base = os.path.join(RUNDIR, "%s-%s-%d%s" % (CURRENT_ID, job.name, shard, tag))
        self.base = base
        self.out_path, self.err_path, self.journal = base + ".out", base + ".err", base + ".journal"
        for p in (self.out_path, self.err_path, self.journal):
            if os.path.exists(p):
                os.remove(p)

    def argv_env(self):
        a = dict(self.job.args)
        a.update(self.extra)
        a["seed"], a["shard"], a["journal"] = self.seed, self.shard, self.journal
        args = [self.job.mode] + ["%s=%s" % (k, v) for k, v in a.items()]
        env = dict(BASE_ENV)
        env.update(self.job.env)
        if self.job.build == "miri":
            argv, env2 = miri_cmd(self.job.binary, args, self.job.tb)
            env2.update(self.job.env)
            if self.job.miri_leaks_ok:
                env2["MIRIFLAGS"] += " -Zmiri-ignore-leaks"
            return argv, env2, HARNESS
        exe = worker_path(self.job.build, self.job.binary)
        if self.job.wrap == "memcheck":
            argv = ["valgrind", "--tool=memcheck", "--error-exitcode=97", "--errors-for-leak-kinds=definite", "--leak-check=full", "-q", exe] + args
        elif self.job.wrap == "cachegrind":
            argv = ["valgrind", "--tool=cachegrind", "--cache-sim=no", "--cachegrind-out-file=/dev/null", exe] + args
        else:
            argv = [exe] + args
        if self.job.build == "asan":
            env["ASAN_OPTIONS"] = "halt_on_error=1:abort_on_error=1:detect_leaks=%d:symbolize=1" % (0 if self.job.env.get("PQVERIF_NO_LSAN") else 1)
            env["ASAN_SYMBOLIZER_PATH"] = shutil.which("llvm-symbolizer-14") or shutil.which("llvm-symbolizer") or ""
        return argv, env, VERIF

    def start(self):
        argv, env, cwd = self.argv_env()
        self.t0 = time.time()
        self.out = open(self.out_path, "ab")
        self.err = open(self.err_path, "ab")
        self.p = subprocess.Popen(argv, cwd=cwd, env=env, stdout=self.out, stderr=self.err, preexec_fn=os.setsid)

    def poll(self):
        rc = self.p.poll()
        if rc is None and time.time() - self.t0 > self.job.timeout:
            try:
                os.killpg(self.p.pid, signal.SIGKILL)
            except ProcessLookupError:
                pass
            self.p.wait()
            self.out.close()
            self.err.close()
            return "timeout"
        if rc is not None:
            self.out.close()
            self.err.close()
        return rc


def read_lines(path):
    res = []
    if not os.path.exists(path):
        return res
    with open(path, "r", errors="replace") as f:
        for line in f:
            line = line.strip()
            if line.startswith("{"):
                try:
                    res.append(json.loads(line))
                except ValueError:
                    pass
    return res


def tail(path, n=4000):
    if not os.path.exists(path):
        return ""
    with open(path, "rb") as f:
        f.seek(0, 2)
        size = f.tell()
        f.seek(max(0, size - n))
        return f.read().decode("utf-8", "replace")


DEATH_PATTERNS = [
    ("unsafe precondition(s) violated", "ub-precondition"),
    ("Undefined Behavior", "miri-ub"),
    ("AddressSanitizer", "asan"),
    ("LeakSanitizer", "lsan"),
    ("memory allocation of", "alloc-abort"),
    ("capacity overflow", "capacity-overflow-abort"),
    ("panic in a function that cannot unwind", "panic-nounwind"),
    ("panicked at", "panic-abort"),
    ("memory leaked", "miri-leak"),
    ("ERROR SUMMARY", "memcheck"),
    ("Invalid read", "memcheck"),
    ("Invalid write", "memcheck"),
]


def classify_death(err_text):
    for pat, name in DEATH_PATTERNS:
        if pat in err_text:
            return name
    return None


def first_frame(err_text):
    """first in-repo source location mentioned in an abort / sanitizer report (for signatures)"""
    import re

    m = re.search(r"(/repo/src/[A-Za-z0-9_/]+\.rs):(\d+)", err_text)
    if m:
        return "%s:%s" % (m.group(1).replace("/repo/", ""), m.group(2))
    m = re.search(r"(src/[A-Za-z0-9_/]+\.rs):(\d+)", err_text)
    return "%s:%s" % (m.group(1), m.group(2)) if m else "?"


def parse_journal(path):
    """returns (last unfinished episode descriptor or None, list of journalled detail lines)"""
    ep, detail = None, []
    if not os.path.exists(path):
        return None, []
    with open(path, "r", errors="replace") as f:
        for line in f:
            line = line.rstrip("\n")
            if line.startswith("EP "):
                try:
                    ep = json.loads(line[3:])
                except ValueError:
                    ep = None
                detail = []
            elif line == "EPDONE":
                ep, detail = None, []
            elif ep is not None:
                detail.append(line)
    return ep, detail


def run_jobs(jobs, seed, log):
    """Run all shards of all jobs, at most NPROC at a time. Returns (lines, problems) where lines
    are the parsed JSON lines (with 'job' added) and problems a list of inconclusive reasons."""
    os.makedirs(RUNDIR, exist_ok=True)
    pending = []
    for j in jobs:
        for s in range(j.shards):
            pending.append(Proc(j, s, seed))
    running, lines, problems = [], [], []
    synthetic = []
    while pending or running:
        while pending and len(running) < NPROC:
            pr = pending.pop(0)
            pr.start()
            running.append(pr)
        time.sleep(0.05)
        for pr in list(running):
            rc = pr.poll()
            if rc is None:
                continue
            running.remove(pr)
            out_lines = read_lines(pr.out_path)
            have_stats = any(l.get("t") == "stats" for l in out_lines)
            for l in out_lines:
                l["job"] = pr.job.name
                l["job_binary"] = pr.job.binary
                l["build"] = pr.job.build + ("-tb" if pr.job.tb else "") + ("+" + pr.job.wrap if pr.job.wrap else "")
                lines.append(l)
            if pr.job.wrap == "cachegrind":
                import re
                m = re.search(r"I\s+refs:\s+([0-9,]+)", tail(pr.err_path, 4000))
                if m:
                    lines.append({"t": "irefs", "job": pr.job.name, "args": dict(pr.job.args), "irefs": int(m.group(1).replace(",", ""))})
            dt = time.time() - pr.t0
            log.write("-- %s shard %d%s rc=%s %.1fs stats=%s\n" % (pr.job.name, pr.shard, pr.tag, rc, dt, have_stats))
            if rc == 0 and have_stats:
                continue
            err_text = tail(pr.err_path, 20000)
            if rc == "timeout":
                problems.append("%s shard %d: watchdog (%ds) fired" % (pr.job.name, pr.shard, pr.job.timeout))
                continue
            cause = classify_death(err_text)
            if cause in ("lsan", "asan") and "LeakSanitizer" in err_text and "ERROR: AddressSanitizer" not in err_text and have_stats and any(l.get("t") == "viol" for l in out_lines):
                # the worker finished and reported violations itself; after a violation the harness
                # deliberately leaks the queue it no longer understands, which is what LSan sees at exit
                log.write("   (LeakSanitizer report at exit after reported violations: ignored)\n")
                continue
            if cause is None:
                problems.append("%s shard %d: died rc=%s without a recognisable report (see %s)" % (pr.job.name, pr.shard, rc, pr.err_path))
                continue
            ep, detail = parse_journal(pr.journal)
            v = {
                "t": "viol",
                "job": pr.job.name,
                "build": pr.job.build + ("-tb" if pr.job.tb else "") + ("+" + pr.job.wrap if pr.job.wrap else ""),
                "abort": cause,
                "stderr_tail": err_text[-3000:],
                "episode": ep,
                "journal": detail[-400:],
            }
            synthetic.append((pr, v))
            # carry on after the crashing episode so that one defect does not mask the others
            if pr.job.restartable and ep is not None and "index" in ep and pr.restarts < 40:
                sub = None
                for l in detail:
                    if l.startswith("CASE "):
                        try:
                            sub = json.loads(l[5:]).get("sub")
                        except ValueError:
                            pass
                if sub is not None:
                    ex = dict(pr.extra, start=int(ep["index"]), substart=int(sub) + 1)
                else:
                    ex = dict(pr.extra, start=int(ep["index"]) + 1)
                    ex.pop("substart", None)
                if pr.restarts + 1 >= 5:
                    ex["noprobe"] = 1  # this shard keeps aborting: let it run to completion without further probing
                nxt = Proc(pr.job, pr.shard, pr.seed, extra=ex, tag="-r%d" % (pr.restarts + 1))
                nxt.restarts = pr.restarts + 1
                pending.append(nxt)
    # turn aborts into violations with an explicit witness
    for pr, v in synthetic:
        lines.append(attribute_abort(pr, v, log))
    return lines, problems


def attribute_abort(pr, v, log):
    """Re-run the crashing episode alone with per-operation journalling to obtain the explicit
    history, and derive properties + signature."""
    ep = v.get("episode")
    detail = v.get("journal") or []
    if ep is not None and "index" in ep and pr.job.restartable and not any(l.startswith("OP ") or l.startswith("CASE ") for l in detail):
        tr = Proc(pr.job, pr.shard, pr.seed, extra=dict(pr.extra, only=int(ep["index"]), start=int(ep["index"]), trace=1), tag="-trace")
        tr.start()
        while tr.poll() is None:
            time.sleep(0.05)
        ep2, detail2 = parse_journal(tr.journal)
        if detail2:
            detail = detail2
            v["journal"] = detail[-400:]
    ops, ctor, last_op, extra = [], None, "?", []
    for l in detail:
        if l.startswith("CTOR "):
            ctor = json.loads(l[5:])
        elif l.startswith("OP "):
            ops.append(json.loads(l[3:]))
        elif l.startswith("CASE "):
            v["case"] = json.loads(l[5:])
    if ops:
        o = ops[-1]
        last_op = o if isinstance(o, str) else list(o.keys())[0]
    elif ctor is not None:
        last_op = ctor if isinstance(ctor, str) else list(ctor.keys())[0]
    case = v.get("case")
    props = ["C04"]
    if case is not None:
        props = list(case.get("props", props))
        last_op = case.get("what", last_op)
    else:
        props += OP_PROPS.get(last_op, [])
    kind = (ep or {}).get("kind", "?")
    if kind == "?" and case is not None:
        ck = case.get("kind") or (case.get("case") or {}).get("kind") or (case.get("history") or {}).get("kind")
        if ck:
            kind = str(ck).lower()
    v["props"] = sorted(set(props))
    v["sig"] = "abort/%s/%s/%s/%s" % (kind, last_op, v["abort"], first_frame(v["stderr_tail"]))
    v["detail"] = "%s during %s (%s build)" % (v["abort"], last_op, v["build"])
    v["binary"] = pr.job.binary
    if case is not None and case.get("history") is not None:
        v["replay"] = {"mode": "hist", "history": case["history"], "episode": ep}
    elif case is not None:
        v["replay"] = {"mode": case.get("mode", pr.job.mode), "case": case, "episode": ep}
    else:
        hist = None
        if ep is not None and ctor is not None:
            hist = {"kind": {"pq": "Pq", "dpq": "Dpq"}.get(kind, kind), "hasher": ep.get("hasher", "std"), "ctor": ctor, "ops": ops, "universe": 8}
        v["replay"] = {"mode": "hist", "history": hist, "episode": ep}
    return v


# properties (besides C04) contradicted by a panic / abort inside the given operation
OP_PROPS = {
    "Extend": ["C07"], "FromIter": ["C07"], "FromVec": ["C07"], "FromOther": ["C07"], "Append": ["C07"], "Convert": ["C07"],
    "IterMut": ["C09"], "CloneSwap": ["C14"], "CloneFrom": ["C14"], "EqCheck": ["C14"], "Observe": ["C13"], "IntoIterCheck": ["C13"], "IntoVecCheck": ["C13"],
    "SortedCheck": ["C06"], "SortedItemsCheck": ["C06"], "Serde": ["C15"], "Drain": ["C16"], "Clear": ["C16"],
    "Reserve": ["C17"], "ReserveExact": ["C17"], "TryReserve": ["C17"], "TryReserveExact": ["C17"], "Shrink": ["C17"],
}

# ------------------------------------------------------------------------------------------------
# verdicts

CURRENT_ID = "X"


def load_known():
    p = os.path.join(VERIF, "known_findings.json")
    if not os.path.exists(p):
        return []
    with open(p) as f:
        return json.load(f).get("findings", [])


def sig_hash(sig):
    return hashlib.sha1(sig.encode()).hexdigest()[:10]


def evaluate(pid, tier, seed, plan, log):
    """Run the plan of one property; returns exit code."""
    import plans

    t0 = time.time()
    jobs = plan["jobs"](tier)
    lite = bool(os.environ.get("PQVERIF_LITE"))
    if lite:
        # development mode for mutation campaigns: only the ubcheck workloads, no coverage floors
        jobs = [j for j in jobs if j.build == "ubcheck" and not j.wrap]
    for fl in sorted(set(j.build for j in jobs)):
        build(fl, log)
    lines, problems = run_jobs(jobs, seed, log)
    post_info = None
    if "post" in plan and not lite:
        extra_viols, post_info, post_problems = plan["post"](lines, tier)
        lines.extend(extra_viols)
        problems.extend(post_problems)
    viols = [l for l in lines if l.get("t") == "viol"]
    stats = [l for l in lines if l.get("t") == "stats"]
    mine, others = {}, {}
    for v in viols:
        tgt = mine if pid in v.get("props", []) else others
        tgt.setdefault(v["sig"], v)
    known = [k for k in load_known() if k.get("property") == pid and k.get("status") == "known"]
    known_sigs = {k["signature"]: k for k in known}
    new, printed_known = [], []
    os.makedirs(REPLAYS, exist_ok=True)
    for sig, v in sorted(mine.items()):
        if sig in known_sigs:
            printed_known.append(known_sigs[sig])
            continue
        path = os.path.join(REPLAYS, "%s-%s.json" % (pid, sig_hash(sig)))
        with open(path, "w") as f:
            json.dump({"property": pid, "sig": sig, "props": v.get("props"), "detail": v.get("detail"), "build": v.get("build"), "binary": v.get("binary") or v.get("job_binary"), "replay": v.get("replay"),
                       "abort": v.get("abort"), "stderr_tail": v.get("stderr_tail")}, f, indent=1)
        new.append((sig, v, path))
    # coverage floors
    agg = plans.aggregate(stats)
    floor_problems = plan["floors"](agg, tier) if ("floors" in plan and not lite) else []
    evals = sum(int(s.get("evals", 0)) for s in stats)
    # distinct: per job the maximum over its shards (shards may overlap), summed over jobs
    per_job = {}
    for s in stats:
        per_job[s["job"]] = max(per_job.get(s["job"], 0), int(s.get("distinct", 0)))
    distinct = sum(per_job.values())
    samples = []
    for s in stats:
        for x in (s.get("stats", {}).get("samples") or [])[:2]:
            if len(samples) < 6:
                samples.append(x)
    wall = time.time() - t0
    ev = {
        "property_id": pid,
        "tier": tier,
        "seed": seed,
        "level": plan["level"],
        "coverage": {
            "evaluations": evals,
            "distinct_nontrivial": distinct,
            "rule": plan["rule"],
            "samples": samples if samples else [{"note": "no sample produced"}],
            "exhaustive": False,
            "jobs": [{"name": j.name, "build": j.build + ("-tb" if j.tb else "") + ("+" + j.wrap if j.wrap else ""), "mode": j.mode, "shards": j.shards, "args": j.args} for j in jobs],
            "worker_processes": len(stats),
            "per_job_distinct_max_over_shards": per_job,
            "aggregate": agg,
            "post_analysis": post_info,
            "violations_for_this_property": sorted(mine.keys()),
            "known_findings_seen": [k["signature"] for k in printed_known],
            "violations_of_other_properties_observed": {sig: v.get("props") for sig, v in sorted(others.items())},
            "inconclusive_reasons": problems + floor_problems,
        },
        "assumptions": plan.get("assumptions", []),
        "wall_s": round(wall, 2),
        "violations": len(new),
    }
    os.makedirs(EVIDENCE, exist_ok=True)
    with open(os.path.join(EVIDENCE, pid + ".json"), "w") as f:
        json.dump(ev, f, indent=1, sort_keys=True)
    for k in printed_known:
        print("KNOWN-FINDING: property=%s %s" % (pid, k.get("what", k["signature"])))
    for sig, v, path in new:
        print("VIOLATION property=%s replay=%s" % (pid, path))
        print("  signature: %s" % sig)
        print("  detail: %s" % (v.get("detail") or "")[:300])
    if others:
        print("note: %d violation signature(s) of other properties observed (not this check's verdict): %s" % (len(others), ", ".join(sorted(set(p for v in others.values() for p in v.get("props", []))))))
    if new:
        print("%s %s: VIOLATED (%d distinct signatures, %d evaluations, %.1fs)" % (pid, tier, len(new), evals, wall))
        return 1
    if problems or floor_problems:
        for r in problems + floor_problems:
            print("INCONCLUSIVE property=%s reason=%s" % (pid, r))
        return 2
    print("%s %s: held on %d monitored evaluations, %d distinct non-trivial cases, %d worker processes, %.1fs" % (pid, tier, evals, distinct, len(stats), wall))
    return 0


def replay(pid, path, log):
    import plans

    with open(path) as f:
        w = json.load(f)
    bld = (w.get("build") or "ubcheck").split("+")[0]
    tb = bld.endswith("-tb")
    bld = bld.replace("-tb", "")
    if bld not in FLAVOURS:
        bld = "ubcheck"
    build(bld, log)
    mode = (w.get("replay") or {}).get("mode", "hist")
    j = Job("replay", bld, "replay", {"file": os.path.abspath(path)}, shards=1, restartable=False, tb=tb, binary=w.get("binary") or plans.BINARY_FOR_MODE.get(mode, "worker"))
    lines, problems = run_jobs([j], 0, log)
    viols = [l for l in lines if l.get("t") == "viol"]
    for v in viols:
        print("REPLAY: %s props=%s\n  %s" % (v.get("sig"), v.get("props"), (v.get("detail") or "")[:400]))
    if any(pid in v.get("props", []) for v in viols):
        print("VIOLATION property=%s replay=%s" % (pid, path))
        return 1
    if problems:
        for r in problems:
            print("INCONCLUSIVE property=%s reason=%s" % (pid, r))
        return 2
    print("replay: no violation of %s reproduced" % pid)
    return 0


def setup():
    """Offline build of every flavour, so that checks only pay incremental rebuilds."""
    os.makedirs(RUNDIR, exist_ok=True)
    rc = 0
    with open(os.path.join(RUNDIR, "setup.log"), "w") as log:
        for fl in ("ubcheck", "release", "boxrel", "asan"):
            try:
                t0 = time.time()
                build(fl, log)
                print("setup: built %s in %.0fs" % (fl, time.time() - t0))
            except Inconclusive as e:
                print("setup: %s" % e)
                rc = 1
        for tb in (False, True):
            t0 = time.time()
            argv, env = miri_cmd("worker", ["replay", "dir=%s" % os.path.join(VERIF, "corpus"), "prefix=no-such-prefix"], tb)
            p = subprocess.run(argv, cwd=HARNESS, env=env, stdout=subprocess.PIPE, stderr=subprocess.STDOUT, text=True)
            log.write(p.stdout[-3000:])
            print("setup: miri%s rc=%d in %.0fs" % ("-tb" if tb else "", p.returncode, time.time() - t0))
            if p.returncode != 0:
                rc = 1
    return rc


def main(argv):
    global CURRENT_ID
    import plans

    if argv and argv[0] == "--setup":
        return setup()
    if len(argv) < 2:
        print(__doc__ or "usage: check <ID> quick|thorough | --replay <file>")
        return 2
    pid = argv[0]
    os.makedirs(RUNDIR, exist_ok=True)
    try:
        seed = int(os.environ.get("VERIF_SEED", "1"))
    except ValueError:
        seed = 1
    seed %= 1 << 63  # the workers take an unsigned 64-bit seed
    if pid == "all":
        rc = 0
        for p in sorted(plans.PLANS):
            r = subprocess.call([sys.executable, os.path.join(VERIF, "check"), p, argv[1]])
            rc = max(rc, r)
        return rc
    if pid not in plans.PLANS:
        print("unknown property %s" % pid)
        return 2
    CURRENT_ID = pid
    logpath = os.path.join(RUNDIR, "%s.log" % pid)
    with open(logpath, "w") as log:
        try:
            if argv[1] == "--replay":
                return replay(pid, argv[2], log)
            tier = argv[1] if argv[1] in ("quick", "thorough") else os.environ.get("VERIF_TIER", "quick")
            return evaluate(pid, tier, seed, plans.PLANS[pid], log)
        except Inconclusive as e:
            print("INCONCLUSIVE property=%s reason=%s" % (pid, e))
            return 2
