"""Per-property plans: which workloads run under which builds, the coverage floors, and how the
evidence describes them."""
from driver import Job, NPROC

BINARY_FOR_MODE = {}


def aggregate(stats):
    """Sum the numeric leaves of the workers' stats objects (lists element-wise, dicts by key)."""

    def add(a, b):
        if isinstance(b, bool):
            return a or b
        if isinstance(b, (int, float)):
            return (a or 0) + b
        if isinstance(b, list) and all(isinstance(x, (int, float)) and not isinstance(x, bool) for x in b):
            a = a or [0] * len(b)
            if len(a) < len(b):
                a = a + [0] * (len(b) - len(a))
            return [x + y for x, y in zip(a, b)] + a[len(b):]
        if isinstance(b, dict):
            a = a or {}
            for k, v in b.items():
                if k == "samples":
                    continue
                a[k] = add(a.get(k), v)
            return a
        return a if a is not None else None

    out = {}
    for s in stats:
        key = s.get("job", "?")
        out[key] = add(out.get(key), s.get("stats", {}))
        # maxima are not additive
        if isinstance(s.get("stats"), dict) and "max_size" in s["stats"]:
            out[key]["max_size"] = max(out[key].get("_max_size", 0), s["stats"]["max_size"])
            out[key]["_max_size"] = out[key]["max_size"]
    for v in out.values():
        if isinstance(v, dict):
            v.pop("_max_size", None)
    return out


def q(tier, quick, thorough):
    return quick if tier == "quick" else thorough


def hist_job(name, kinds, profiles, ops, shards=NPROC, hashers="std,fixed", build="ubcheck", **kw):
    return Job(name, build, "hist", {"kinds": kinds, "profiles": profiles, "ops": ops, "hashers": hashers}, shards=shards, **kw)


def floor_hist(jobname, need_remove_cases=True, min_size=64, min_arr=1000):
    def f(agg, tier):
        probs = []
        a = agg.get(jobname)
        if not a:
            return ["no statistics from job %s" % jobname]
        if need_remove_cases:
            rc = a.get("remove_cases", [])
            for i in (0, 2, 4, 6, 8):
                if len(rc) <= i or rc[i] == 0:
                    probs.append("index-repair case %d of remove never exercised" % i)
            pc = a.get("pop_cases", [])
            if len(pc) < 4 or pc[3] == 0 or pc[2] == 0:
                probs.append("swap_remove repair cases not all exercised: %s" % pc)
        if a.get("max_size", 0) < min_size:
            probs.append("largest queue seen %s < %d" % (a.get("max_size"), min_size))
        if a.get("distinct_arrangements", 0) < min_arr:
            probs.append("only %s distinct arrangements seen" % a.get("distinct_arrangements"))
        if a.get("events", {}).get("M-ORDER", 0) == 0 or a.get("events", {}).get("M-TABLES", 0) == 0:
            probs.append("a structural monitor observed no events")
        return probs

    return f


HIST_RULE = (
    "generated histories (profiles churn/growth/storm/bulk, seeded by VERIF_SEED) executed in lock step on the real queue and the "
    "sequential model; after EVERY operation the hook snapshot is checked (tables, heap order), contents are compared and the lookups "
    "probed for the whole id universe; evaluations = operations executed under the monitors; a case is non-trivial when the queue is "
    "non-empty and distinct by (hash of heap table, slot table and (id,priority) per slot) x (operation and its arguments); "
    "distinct_nontrivial = per job the MAXIMUM over its shards of the measured set size (shards may overlap), summed over jobs"
)
ASSUME = [
    "the hook snapshot copies the store's tables faithfully (read-only, checked accesses)",
    "std's unsafe-precondition checks are compiled into the ubcheck build (profile: release + debug-assertions + overflow-checks)",
    "verdicts cover the executions produced, not all histories",
]

PLANS = {}

PLANS["C01"] = {
    "level": "exploration",
    "rule": HIST_RULE,
    "assumptions": ASSUME,
    "jobs": lambda tier: [
        hist_job("hist-pq", "pq", "churn,churn-single,growth,growth-ties,storm,bulk,bulk-small", q(tier, 120_000, 3_000_000)),
    ],
    "floors": floor_hist("hist-pq"),
}
PLANS["C02"] = {
    "level": "exploration",
    "rule": HIST_RULE,
    "assumptions": ASSUME,
    "jobs": lambda tier: [
        hist_job("hist-dpq", "dpq", "churn,churn-single,growth,growth-ties,storm,bulk,bulk-small", q(tier, 120_000, 3_000_000)),
    ],
    "floors": floor_hist("hist-dpq"),
}
PLANS["C03"] = {
    "level": "exploration",
    "rule": HIST_RULE,
    "assumptions": ASSUME,
    "jobs": lambda tier: [
        hist_job("hist-churn", "both", "churn,churn-single,bulk-small,growth-ties", q(tier, 120_000, 3_000_000)),
    ],
    "floors": floor_hist("hist-churn", min_size=32),
}
