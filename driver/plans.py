"""Per-property plans: which workloads run under which builds, the coverage floors, and how the
evidence describes them."""
import os

from driver import Job, NPROC, VERIF

BINARY_FOR_MODE = {"cap": "worker_alloc"}
CORPUS = os.path.join(VERIF, "corpus")


def aggregate(stats):
    """Sum the numeric leaves of the workers' stats objects (lists element-wise, dicts by key),
    per job; maxima are kept as maxima."""

    def add(a, b, key=None):
        if isinstance(b, bool):
            return bool(a) or b if key != "bfs_all_exhaustive" else (True if a is None else bool(a)) and b
        if isinstance(b, (int, float)):
            if key in ("max_size", "systematic_max_len", "systematic_sequences"):
                return max(a or 0, b)
            return (a or 0) + b
        if isinstance(b, list) and b and all(isinstance(x, (int, float)) and not isinstance(x, bool) for x in b):
            a = a or [0] * len(b)
            if len(a) < len(b):
                a = a + [0] * (len(b) - len(a))
            return [x + y for x, y in zip(a, b)] + a[len(b):]
        if isinstance(b, list):
            a = a or []
            return (a + b)[:600]
        if isinstance(b, dict):
            a = a or {}
            for k, v in b.items():
                if k == "samples":
                    continue
                a[k] = add(a.get(k), v, k)
            return a
        return a if a is not None else b

    out = {}
    for s in stats:
        key = s.get("job", "?")
        out[key] = add(out.get(key), s.get("stats", {}))
    return out


def q(tier, quick, thorough):
    return quick if tier == "quick" else thorough


# ------------------------------------------------------------------------------------------------
# job builders


def hist_job(name, kinds, profiles, ops, shards=NPROC, hashers="std,fixed", build="ubcheck", extra=None, **kw):
    a = {"kinds": kinds, "profiles": profiles, "ops": ops, "hashers": hashers}
    a.update(extra or {})
    return Job(name, build, "hist", a, shards=shards, **kw)


def bfs_job(name, kinds, configs, wide=0, max_states=600_000, timeout=1500):
    n = len(configs.split(",")) * (2 if kinds == "both" else 1)
    return Job(name, "ubcheck", "bfs", {"kinds": kinds, "configs": configs, "wide": wide, "max_states": max_states, "nshards": n}, shards=n, restartable=False, timeout=timeout)


def iters_job(name, which, build="ubcheck", max_n=5, random=400, shards=8, extra=None, **kw):
    a = {"which": which, "max_n": max_n, "random": random, "nshards": shards}
    a.update(extra or {})
    return Job(name, build, "iters", a, shards=shards, restartable=False, **kw)


def corpus_job(name, prefixes, build="ubcheck", binary="worker", notprefix="miri-,alloc-", **kw):
    a = {"dir": CORPUS, "prefix": prefixes}
    if notprefix:
        a["notprefix"] = notprefix
    return Job(name, build, "replay", a, shards=1, restartable=True, binary=binary, **kw)


def miri_job(name, mode, args, shards, tb=False, timeout=2400, leaks_ok=False):
    return Job(name + ("-tb" if tb else ""), "miri", mode, args, shards=shards, tb=tb, timeout=timeout, restartable=False, miri_leaks_ok=leaks_ok)


# ------------------------------------------------------------------------------------------------
# floors


def need(agg, job, path, minimum, what):
    a = agg.get(job)
    if a is None:
        return ["no statistics from job %s" % job]
    cur = a
    for k in path:
        cur = cur.get(k) if isinstance(cur, dict) else None
        if cur is None:
            return ["%s: statistic %s missing" % (job, "/".join(path))]
    if cur < minimum:
        return ["%s: %s = %s < %s" % (job, what, cur, minimum)]
    return []


def floor_hist(jobname, need_remove_cases=True, min_size=64, min_arr=1000):
    def f(agg, tier):
        probs = []
        a = agg.get(jobname)
        if not a:
            return ["no statistics from job %s" % jobname]
        if need_remove_cases:
            rc = a.get("remove_cases", [])
            for i in (0, 2, 4, 6, 8):
                if len(rc) <= i or rc[i] == 0:
                    probs.append("index-repair case %d of remove never exercised" % i)
            pc = a.get("pop_cases", [])
            if len(pc) < 4 or pc[3] == 0 or pc[2] == 0:
                probs.append("swap_remove repair cases not all exercised: %s" % pc)
        if a.get("max_size", 0) < min_size:
            probs.append("largest queue seen %s < %d" % (a.get("max_size"), min_size))
        if a.get("distinct_arrangements", 0) < min_arr:
            probs.append("only %s distinct arrangements seen" % a.get("distinct_arrangements"))
        if a.get("events", {}).get("M-ORDER", 0) == 0 or a.get("events", {}).get("M-TABLES", 0) == 0:
            probs.append("a structural monitor observed no events")
        return probs

    return f


def floors(*fs):
    def f(agg, tier):
        out = []
        for g in fs:
            out.extend(g(agg, tier))
        return out

    return f


def floor_bfs(job):
    def f(agg, tier):
        a = agg.get(job) or {}
        p = []
        if a.get("bfs_states", 0) < 500:
            p.append("%s: only %s concrete states explored" % (job, a.get("bfs_states")))
        if not a.get("bfs_all_exhaustive", False):
            p.append("%s: a small-scope exploration hit its state cap (not exhaustive)" % job)
        return p

    return f


def floor_stat(job, path, minimum, what):
    return lambda agg, tier: need(agg, job, path, minimum, what)


def floor_ops(job, names, minimum=1):
    def f(agg, tier):
        oc = (agg.get(job) or {}).get("op_counts", {})
        return ["%s: operation %s executed %s times" % (job, n, oc.get(n, 0)) for n in names if oc.get(n, 0) < minimum]

    return f


HIST_RULE = (
    "generated histories (seeded by VERIF_SEED; profiles named in coverage.jobs) executed in lock step on the real queue and the "
    "sequential model; after EVERY operation the hook snapshot is checked (tables, heap order), contents are compared and the lookups "
    "probed for a universe of ids; evaluations = operations / cases / crash points executed under the monitors, summed over jobs; a "
    "history step is non-trivial when the queue is non-empty and distinct by (hash of heap table, slot table and (id,priority) per "
    "slot) x (operation and its arguments); small-scope (bfs) jobs count every (concrete state, operation) pair once; "
    "distinct_nontrivial = per job the MAXIMUM over its shards of the measured set size (shards may overlap), summed over jobs"
)
ASSUME = [
    "the hook snapshot copies the store's tables faithfully (read-only, checked accesses)",
    "std's unsafe-precondition checks are compiled into the ubcheck build (profile: release + debug-assertions + overflow-checks)",
    "verdicts cover the executions produced, not all histories",
]

ALL_PROFILES = "churn,churn-single,growth,growth-ties,storm,bulk,bulk-small"
PLANS = {}

# ------------------------------------------------------------------------------------------------
# C01 / C02 / C03

PLANS["C01"] = {
    "level": "exploration",
    "rule": HIST_RULE,
    "assumptions": ASSUME,
    "jobs": lambda tier: [
        hist_job("hist-pq", "pq", ALL_PROFILES + ",mutate,convert", q(tier, 500_000, 12_000_000)),
        hist_job("hist-pq-huge", "pq", "huge", q(tier, 25_000, 400_000), shards=8, hashers="fixed"),
        bfs_job("bfs-pq", "pq", q(tier, "3:3,4:2,4:3", "3:3,4:2,4:3,5:2,3:5"), wide=q(tier, 0, 1)),
    ],
    "floors": floors(floor_hist("hist-pq"), floor_bfs("bfs-pq"), floor_stat("hist-pq-huge", ["max_size"], 1000, "largest queue in the large-size job")),
}
PLANS["C02"] = {
    "level": "exploration",
    "rule": HIST_RULE,
    "assumptions": ASSUME,
    "jobs": lambda tier: [
        hist_job("hist-dpq", "dpq", ALL_PROFILES + ",mutate,convert", q(tier, 500_000, 12_000_000)),
        hist_job("hist-dpq-huge", "dpq", "huge", q(tier, 25_000, 400_000), shards=8, hashers="fixed"),
        bfs_job("bfs-dpq", "dpq", q(tier, "3:3,4:2,4:3", "3:3,4:2,4:3,5:2,3:5"), wide=q(tier, 0, 1)),
    ],
    "floors": floors(
        floor_hist("hist-dpq"),
        floor_bfs("bfs-dpq"),
        floor_stat("hist-dpq-huge", ["max_size"], 1000, "largest queue in the large-size job"),
        # both level parities x {crossed to the other chain, moved on its own chain, stayed}
        lambda agg, tier: ["hist-dpq: DPQ move class %d never observed" % i for i, x in enumerate((agg.get("hist-dpq") or {}).get("dpq_moves", [0] * 6)) if x == 0],
    ),
}
PLANS["C03"] = {
    "level": "exploration",
    "rule": HIST_RULE,
    "assumptions": ASSUME,
    "jobs": lambda tier: [
        hist_job("hist-churn", "both", "churn,churn-single,bulk-small,growth-ties,payload,convert", q(tier, 500_000, 12_000_000)),
        bfs_job("bfs-both", "both", q(tier, "3:3,4:2", "3:3,4:2,4:3,5:2"), wide=q(tier, 0, 1)),
    ],
    "floors": floors(floor_hist("hist-churn", min_size=32), floor_bfs("bfs-both")),
}

# ------------------------------------------------------------------------------------------------
# C04: union workload under four detectors

PLANS["C04"] = {
    "level": "exploration",
    "rule": HIST_RULE + "; the same workloads are repeated under ASan (+LSan), valgrind memcheck and Miri (Stacked and Tree Borrows) with smaller budgets; "
    "a panic, an abort (std unsafe-precondition check, sanitizer, Miri) or an inconsistent table snapshot is a violation",
    "assumptions": ASSUME + ["ASan / memcheck cannot see an index that is out of bounds but within capacity; the ubcheck build and Miri can"],
    "jobs": lambda tier: [
        hist_job("hist-all", "both", ALL_PROFILES + ",mutate,sorted,drainclear,capacity,convert,payload,incdec", q(tier, 400_000, 8_000_000), hashers="std,fixed,xx,brown"),
        hist_job("hist-degenerate", "both", "churn,bulk-small,growth-ties", q(tier, 60_000, 600_000), hashers="const,low2", shards=4),
        hist_job("hist-huge", "both", "huge", q(tier, 25_000, 400_000), shards=8, hashers="std,fixed"),
        iters_job("iters-all", "Iter,IterRef,IntoIter,Drain,Sorted,IterMut,IterMutRef", max_n=q(tier, 4, 6), random=q(tier, 300, 3000)),
        Job("bulk", "ubcheck", "bulk", {"cases": q(tier, 150, 1500)}, shards=4),
        Job("serde", "ubcheck", "serde", {"len": q(tier, 3, 5), "random": q(tier, 200, 2000), "roundtrips": q(tier, 200, 2000), "nshards": 4}, shards=4, restartable=False),
        corpus_job("corpus", ""),
        hist_job("asan-hist", "both", ALL_PROFILES + ",mutate,drainclear,convert", q(tier, 60_000, 1_000_000), build="asan", extra={"noleak": 1}),
        iters_job("asan-iters", "Iter,IntoIter,Drain,Sorted,IterMut", build="asan", max_n=q(tier, 3, 5), random=q(tier, 100, 1000), shards=4, extra={"noleak": 1}),
        hist_job("memcheck-hist", "both", "churn,bulk-small,growth,mutate", q(tier, 4_000, 60_000), build="boxrel", wrap="memcheck", extra={"noleak": 1}, shards=q(tier, 8, 16), restartable=False),
        miri_job("miri-hist", "hist", {"kinds": "both", "profiles": "churn,bulk-small,mutate,drainclear,convert", "ops": q(tier, 100, 700), "hashers": "std,fixed", "noleak": 1, "cap_universe": 7, "cap_steps": 25}, shards=q(tier, 8, 16)),
        miri_job("miri-hist", "hist", {"kinds": "both", "profiles": "churn,bulk-small,mutate", "ops": q(tier, 100, 700), "hashers": "fixed", "noleak": 1, "cap_universe": 7, "cap_steps": 25}, shards=q(tier, 6, 16), tb=True),
    ],
    "floors": floors(
        floor_hist("hist-all"),
        floor_stat("asan-hist", ["ops"], 10_000, "operations under ASan"),
        floor_stat("memcheck-hist", ["ops"], 1_000, "operations under memcheck"),
        floor_stat("miri-hist", ["ops"], 500, "operations under Miri (Stacked Borrows)"),
        floor_stat("miri-hist-tb", ["ops"], 300, "operations under Miri (Tree Borrows)"),
    ),
}

# ------------------------------------------------------------------------------------------------
# C05


def cost_jobs(tier):
    jobs = [Job("cost", "release", "cost", {"exps": q(tier, "4,8,12,16", "4,6,8,10,12,14,16,18,20"), "reps": q(tier, 40, 120), "nshards": NPROC}, shards=NPROC, restartable=False, timeout=1800)]
    for kind in ("pq", "dpq"):
        for n in (256, 65536):
            for op in ("none", "change", "removepush", "poppush", "peeks", "absent"):
                jobs.append(Job("cg-%s-%d-%s" % (kind, n, op), "release", "costprobe", {"kinds": kind, "n": n, "op": op, "ops": 2000}, shards=1, wrap="cachegrind", restartable=False, timeout=900))
    return jobs


def cost_post(lines, tier):
    ir = {}
    for l in lines:
        if l.get("t") == "irefs":
            a = l["args"]
            ir[(a["kinds"], int(a["n"]), a["op"])] = l["irefs"]
    viols, info, problems = [], {}, []
    for kind in ("pq", "dpq"):
        for op in ("change", "removepush", "poppush", "peeks", "absent"):
            try:
                small = (ir[(kind, 256, op)] - ir[(kind, 256, "none")]) / 2000.0
                large = (ir[(kind, 65536, op)] - ir[(kind, 65536, "none")]) / 2000.0
            except KeyError:
                problems.append("cachegrind instruction count missing for %s %s" % (kind, op))
                continue
            ratio = large / max(small, 1.0)
            info["%s/%s" % (kind, op)] = {"instr_per_op_n256": round(small, 1), "instr_per_op_n65536": round(large, 1), "ratio": round(ratio, 2)}
            limit = 4.0 if op not in ("peeks", "absent") else 2.0
            if ratio > limit:
                viols.append({
                    "t": "viol", "props": ["C05"], "sig": "cost/%s/%s/instructions-scaling" % (kind, op), "job": "cachegrind", "build": "release+cachegrind",
                    "detail": "instructions per %s operation grew from %.0f at n=2^8 to %.0f at n=2^16 (x%.1f > x%.0f): not logarithmic" % (op, small, large, ratio, limit),
                    "replay": {"mode": "costprobe", "kind": kind, "op": op},
                })
    return viols, {"cachegrind_instructions_per_operation": info}, problems


PLANS["C05"] = {
    "level": "exploration",
    "rule": "every public call on queues of n = 2^4..2^16 (quick) / 2^20 (thorough) elements with ascending, descending, constant, few-ties and random priorities is bracketed by "
    "callback counters (Ord::cmp, Hash, Eq); the addressed element is chosen by heap position (root, last leaf, every level) and sent above the maximum / below the minimum; "
    "evaluations = measured calls; distinct_nontrivial = distinct (queue kind, operation, n) cells of the cost table, each holding the maximum over its calls; "
    "bounds: single-element ops <= 8*floor(log2(n+1))+16 comparisons and max(n=2^16) <= 2.5*max(n=2^8)+4, peeks/lookups 0 (peek_max 1), rebuilds <= 8n+32; "
    "plus cachegrind instruction counts per operation at n=2^8 vs 2^16 (ratio <= 4)",
    "assumptions": ["constants fixed at >= 2x the worst count measured on the unchanged tree", "the asymptotic claim is decided only as explicit bounds up to the measured sizes"],
    "jobs": cost_jobs,
    "post": cost_post,
    "floors": floor_stat("cost", ["calls_measured"], 5000, "measured calls"),
}

# ------------------------------------------------------------------------------------------------
# C06

PLANS["C06"] = {
    "level": "exploration",
    "rule": "sorted consumption: (a) iterator scripts over {next, next_back} on into_sorted_iter of queues built by push/remove/change recipes - every script up to length n+3 for "
    "n <= max_n, random scripts up to size 300 - with the remainder kept by the oracle (next = minimum / next_back = maximum of what remains, len() before every call, "
    "None after exhaustion); (b) into_sorted_vec / into_(a|de)scending_sorted_vec and clone().into_sorted_iter() inside generated histories (states produced by updates, "
    "removals and bulk operations); distinct = distinct (recipe, script) cases on non-empty queues / (state, op) pairs as in the history rule",
    "assumptions": ASSUME,
    "jobs": lambda tier: [
        iters_job("iters-sorted", "Sorted", max_n=q(tier, 6, 8), random=q(tier, 1500, 20000), extra={"recipes": q(tier, 4, 8), "adaptors": 1}),
        hist_job("hist-sorted", "both", "sorted,growth-ties,churn", q(tier, 200_000, 4_000_000)),
        corpus_job("corpus", "iters-adaptor-into_sorted"),
    ],
    "floors": floors(floor_stat("iters-sorted", ["iter_cases"], 2000, "sorted-iterator cases"), floor_ops("hist-sorted", ["into_sorted_iter", "into_sorted_vec"], 500)),
}

# ------------------------------------------------------------------------------------------------
# C07

PLANS["C07"] = {
    "level": "exploration",
    "rule": "bulk cases: receiver (size 0..200, arbitrary arrangement) x input pairs (0..500, duplicates inside the input and against the receiver) x form (extend, FromIterator, "
    "From<Vec>, append, conversion); extend/FromIterator are repeated for every legal size_hint shape (8 ordinary shapes; in the guarded-allocator binary also upper bounds 2^40 and "
    "usize::MAX) and the outcomes compared; every result is checked against the model, the table/order monitors and a sorted drain; evaluations = histories executed; "
    "distinct = distinct (receiver, input, form, hint) histories with a non-empty input; both strategies of the push-versus-rebuild threshold must be predicted at least once",
    "assumptions": ASSUME + ["the harness mirrors better_to_rebuild only to ACCOUNT coverage of both strategies, never for a verdict"],
    "jobs": lambda tier: [
        Job("bulk", "ubcheck", "bulk", {"cases": q(tier, 400, 6000)}, shards=NPROC),
        Job("bulk-hugehints", "ubcheck", "bulk", {"cases": q(tier, 150, 2000), "huge": 1, "max_in": 120}, shards=8, binary="worker_alloc"),
        hist_job("hist-bulk", "both", "bulk,bulk-small,convert", q(tier, 100_000, 2_000_000)),
        bfs_job("bfs-both", "both", "3:3", wide=1),
        corpus_job("corpus-alloc", "alloc-", binary="worker_alloc", notprefix=""),
    ],
    "floors": floors(
        floor_stat("bulk", ["predicted_rebuild_strategy"], 50, "cases on the rebuild side of the threshold"),
        floor_stat("bulk", ["predicted_push_strategy"], 50, "cases on the push side of the threshold"),
        floor_stat("bulk", ["inputs_with_internal_duplicates"], 50, "inputs with duplicates"),
        floor_stat("bulk-hugehints", ["hint_shapes", "ZeroSomeMax"], 20, "cases with upper bound usize::MAX"),
        floor_ops("hist-bulk", ["extend", "append", "convert"], 200),
    ),
}

# ------------------------------------------------------------------------------------------------
# C08

PLANS["C08"] = {
    "level": "exploration",
    "rule": HIST_RULE + "; predicates and setters are logged (ids seen, in order) and compared with the model; small-scope jobs run retain with EVERY subset kept, retain_mut "
    "rewriting one priority with and without a removal, iter_mut with every consumed prefix and a write at every position, and both outcomes of pop_*_if with every rewrite",
    "assumptions": ASSUME,
    "jobs": lambda tier: [
        hist_job("hist-mutate", "both", "mutate,bulk,bulk-small", q(tier, 300_000, 6_000_000)),
        bfs_job("bfs-both", "both", q(tier, "3:3,4:2", "3:3,4:2,4:3,5:2"), wide=1),
        iters_job("iters-mut", "IterMut,IterMutRef", max_n=q(tier, 5, 7), random=q(tier, 600, 6000), extra={"adaptors": 0}),
    ],
    "floors": floors(floor_bfs("bfs-both"), floor_ops("hist-mutate", ["retain", "retain_mut", "iter_mut", "pop_max_if", "pop_min_if"], 500), floor_stat("iters-mut", ["iter_cases"], 2000, "iter_mut cases")),
}

# ------------------------------------------------------------------------------------------------
# C09

PLANS["C09"] = {
    "level": "exploration",
    "rule": "iter_mut scripts over {next, next_back (where offered), len, size_hint}: every script up to length n+3 for n <= max_n, random scripts up to size 300, through "
    "iter_mut() and `&mut queue`, consumed partially, dropped or leaked; M-ALIAS records the addresses of all yielded item / priority references (compared before anything is "
    "written); in half of the cases every reference still held is written through after every step; the same scripts run in the release build (wrapping arithmetic) and, on "
    "small queues, under Miri with Stacked Borrows and Tree Borrows; std adaptor len() probes (take, skip, enumerate, peekable, zip, step_by) where an exact size is declared; "
    "distinct = distinct (queue kind, recipe, script, writes) cases on non-empty queues",
    "assumptions": ["yielded references are used only while their iterator is alive (the scope the property states)", "Miri's aliasing models are experimental"],
    "jobs": lambda tier: [
        iters_job("iters-mut", "IterMut,IterMutRef", max_n=q(tier, 6, 8), random=q(tier, 2000, 30000), extra={"recipes": q(tier, 3, 6)}),
        iters_job("iters-mut-release", "IterMut,IterMutRef", build="release", max_n=q(tier, 5, 7), random=q(tier, 1000, 10000)),
        corpus_job("corpus", "iters-dpq-itermut,iters-adaptor-iter_mut"),
        miri_job("miri-iters", "iters", {"which": "IterMut,IterMutRef", "max_n": q(tier, 2, 3), "random": q(tier, 4, 30), "max_size": 12, "hold": 1, "adaptors": 0, "recipes": 1, "nshards": q(tier, 8, 16)}, shards=q(tier, 8, 16)),
        miri_job("miri-iters", "iters", {"which": "IterMut", "max_n": q(tier, 2, 3), "random": q(tier, 4, 30), "max_size": 12, "hold": 1, "adaptors": 0, "recipes": 1, "nshards": q(tier, 6, 16)}, shards=q(tier, 6, 16), tb=True),
        Job("miri-corpus", "miri", "replay", {"dir": CORPUS, "prefix": "miri-"}, shards=1, restartable=False, timeout=1500),
    ],
    "floors": floors(
        floor_stat("iters-mut", ["alias_checks"], 10_000, "address-disjointness checks"),
        floor_stat("iters-mut", ["len_checks"], 5_000, "len() checks on an iterator declaring an exact size"),
        floor_stat("miri-iters", ["iter_cases"], 150, "iter_mut cases under Miri (Stacked Borrows)"),
        floor_stat("miri-iters-tb", ["iter_cases"], 100, "iter_mut cases under Miri (Tree Borrows)"),
    ),
}

# ------------------------------------------------------------------------------------------------
# C10

FAULT_RULE = (
    "crash-point enumeration: for sampled (state, operation) pairs the operation is first run fault-free to count its user callbacks per kind (Ord::cmp, PartialEq, Hash, Eq, Clone, "
    "predicate/setter, feeding iterator); then for EVERY index k of every kind (evenly sampled only above 64) the state is rebuilt, a panic injected at k and caught, and a "
    "continuation run (random operations, optionally a second fault, pops from both ends until empty, refill, removals, iter_mut, retain, drain/clear, drop); leaked drain / iter_mut "
    "guards are cases of their own; evaluations = crash points executed; distinct = distinct (kind, state recipe, operation, callback kind, k); alarms: abort with 'unsafe "
    "precondition(s) violated' (ubcheck), ASan / Miri report, double drop or leak in the live-object ledger"
)
PLANS["C10"] = {
    "level": "fault_enumeration",
    "rule": FAULT_RULE,
    "assumptions": ["exhaustive over the crash points of each sampled (state, operation); states, operations and continuations are sampled", "safe panics, wrong order and wrong length after a fault are allowed by the property"],
    "jobs": lambda tier: [
        Job("faults", "ubcheck", "faults", {"episodes": q(tier, 500, 12_000), "max_n": 40}, shards=NPROC),
        # leak accounting after faults is the ledger's job (exact, and aware of client-side leaks); LSan stays off here
        Job("faults-asan", "asan", "faults", {"episodes": q(tier, 60, 1500), "max_n": 20, "noleak": 1}, shards=q(tier, 8, 16), env={"PQVERIF_NO_LSAN": "1"}),
        corpus_job("corpus", "faults-"),
        miri_job("miri-faults", "faults", {"episodes": q(tier, 4, 30), "max_n": 6, "per_kind": 3, "noleak": 1}, shards=q(tier, 10, 16)),
        Job("miri-corpus", "miri", "replay", {"dir": CORPUS, "prefix": "faults-"}, shards=1, restartable=False, timeout=1500),
    ],
    "floors": floors(
        floor_stat("faults", ["panics_injected_and_caught"], 20_000, "caught injected panics"),
        floor_stat("faults", ["leaked_iterator_cases"], 5, "leaked-iterator cases"),
        floor_stat("faults", ["by_operation", "push-new"], 200, "crash points inside push of a new item"),
        floor_stat("faults", ["by_callback", "Cmp"], 2000, "crash points inside Ord::cmp"),
        floor_stat("faults", ["by_callback", "Hash"], 500, "crash points inside Hash"),
        floor_stat("miri-faults", ["panics_injected_and_caught"], 60, "caught injected panics under Miri"),
    ),
}

# ------------------------------------------------------------------------------------------------
# C11 / C12

PLANS["C11"] = {
    "level": "exploration",
    "rule": HIST_RULE + "; priorities carry a tag ignored by Ord, so that 'offered priority returned, stored one untouched' is observable; offered priorities are drawn lower / equal / "
    "higher than the stored one and aimed at chosen heap positions",
    "assumptions": ASSUME,
    "jobs": lambda tier: [
        hist_job("hist-incdec", "both", "incdec,churn-single,storm", q(tier, 300_000, 6_000_000)),
        bfs_job("bfs-both", "both", q(tier, "3:3,4:2", "3:3,4:2,4:3,5:2")),
    ],
    "floors": floors(floor_bfs("bfs-both"), floor_ops("hist-incdec", ["push_increase", "push_decrease"], 20_000)),
}
PLANS["C12"] = {
    "level": "exploration",
    "rule": HIST_RULE + "; items carry a payload ignored by Eq/Hash: every key argument brings a fresh payload, payloads are rewritten through get_mut / peek_*_mut / iter_mut / "
    "pop_*_if, and every item that comes back (by reference or by value) is compared including its payload; owned and borrowed lookups run side by side "
    "(Item / Key on every probe, and String items addressed through &String versus &str in the strkeys job)",
    "assumptions": ASSUME,
    "jobs": lambda tier: [
        hist_job("hist-payload", "both", "payload,churn,churn-single,bulk-small,convert", q(tier, 300_000, 6_000_000)),
        bfs_job("bfs-both", "both", q(tier, "3:3,4:2", "3:3,4:2,4:3")),
        Job("strkeys", "ubcheck", "strkeys", {"histories": q(tier, 400, 8000)}, shards=4, restartable=False),
    ],
    "floors": floors(floor_bfs("bfs-both"), floor_ops("hist-payload", ["get_mut", "peek_max_mut", "iter_mut", "push", "change_priority"], 1000), floor_stat("strkeys", ["owned_vs_borrowed_comparisons"], 10_000, "String vs &str lookups")),
}

# ------------------------------------------------------------------------------------------------
# C13

PLANS["C13"] = {
    "level": "exploration",
    "rule": "iterator scripts over {next, next_back, len, size_hint} on iter, `&queue`, into_iter, drain and the sorted iterators: every script up to length n+3 for n <= max_n, "
    "random scripts up to size 300; the declared traits (ExactSizeIterator, DoubleEndedIterator) are discovered at compile time and each type is held to what it declares; "
    "std adaptor probes under catch_unwind: take, skip, rev, enumerate, peekable, zip, step_by, rev().take, chain, by_ref; ubcheck and release builds; distinct = distinct "
    "(queue kind, iterator, recipe, script) cases on non-empty queues",
    "assumptions": ["only declared traits are enforced; for other types size_hint must merely be legal"],
    "jobs": lambda tier: [
        iters_job("iters", "Iter,IterRef,IntoIter,Drain,Sorted", max_n=q(tier, 6, 8), random=q(tier, 2000, 30000), extra={"recipes": q(tier, 3, 6)}),
        iters_job("iters-release", "Iter,IterRef,IntoIter,Drain,Sorted", build="release", max_n=q(tier, 5, 6), random=q(tier, 1000, 10000)),
        hist_job("hist-observe", "both", "churn,bulk-small,sorted", q(tier, 60_000, 1_000_000), shards=8),
        corpus_job("corpus", "iters-adaptor"),
    ],
    "floors": floors(
        floor_stat("iters", ["adaptor_probes_on_exact_types"], 1000, "adaptor len() probes on exact-size types"),
        floor_stat("iters", ["size_hint_checks"], 50_000, "size_hint checks"),
        floor_stat("iters", ["len_checks"], 50_000, "len checks"),
    ),
}

# ------------------------------------------------------------------------------------------------
# C14 / C15 / C16 / C17 / C18

PLANS["C14"] = {
    "level": "exploration",
    "rule": "equality monitor: a content set (0..64 items, ties) is realised by three of ten different routes (insertion order, extra items inserted and removed, From<Vec>, extend, "
    "append, wrong-then-corrected priorities, with_capacity + reserve, retain from a superset, conversion from the other kind); all pairs must be == both ways and not !=; "
    "contents differing in one priority, one missing item, one replaced item, one extra item must be != both ways; pairs across hasher TYPES; clone twin: a generated history "
    "is applied to source and clone in lock step (identical return values and contents), then the source is mutated and the clone must not change; evaluations = equality "
    "decisions + twin operations; distinct = distinct non-empty content sets with their routes",
    "assumptions": ["tags / payloads are outside Eq of the user types and therefore outside queue equality"],
    "jobs": lambda tier: [Job("eq", "ubcheck", "eq", {"cases": q(tier, 700, 20_000)}, shards=NPROC)],
    "floors": floors(floor_stat("eq", ["cross_hasher_type_pairs"], 500, "cross-hasher pairs"), floor_stat("eq", ["clone_twin_ops"], 20_000, "clone twin operations")),
}
PLANS["C15"] = {
    "level": "exploration",
    "rule": "(a) EVERY pair sequence over 3 items x 3 priorities up to length L (quick 4, thorough 5) plus random longer ones, as JSON text and through a non-self-describing token "
    "source with and without a length hint, for both kinds: Err is accepted, Ok(q) must have len == iter().count() == number of distinct items, priorities among those given, "
    "consistent tables, heap order, and survive a model-checked continuation; (b) round trips of reachable states PQ->PQ, PQ->DPQ, DPQ->PQ, DPQ->DPQ through JSON and serde_test "
    "tokens (assert_ser_tokens / assert_de_tokens) followed by a continuation; (c) serde steps inside generated histories; distinct = distinct (sequence, kind, format) inputs",
    "assumptions": ["items serialize as their id, priorities as their ordering key"],
    "jobs": lambda tier: [
        Job("serde", "ubcheck", "serde", {"len": q(tier, 4, 5), "random": q(tier, 400, 6000), "roundtrips": q(tier, 300, 4000), "nshards": NPROC}, shards=NPROC, restartable=False),
        hist_job("hist-serde", "both", "convert,churn", q(tier, 60_000, 1_000_000), shards=8),
        corpus_job("corpus", "serde-"),
    ],
    "floors": floors(floor_stat("serde", ["inputs_with_repeated_items"], 5000, "inputs repeating an item"), floor_stat("serde", ["roundtrips"], 1000, "round trips"), floor_ops("hist-serde", ["serde"], 500)),
}
PLANS["C16"] = {
    "level": "exploration",
    "rule": "drain scripts over {next, next_back}: every script up to length n+3 for n <= max_n and random ones up to size 300, then drop or mem::forget; afterwards len/is_empty/"
    "peeks/pops/iter must report emptiness, the hook tables must be empty, the live-object ledger must show every element dropped exactly once (a leaked drain may keep exactly "
    "its un-yielded elements), and a generated continuation must return the same values on the emptied queue as on a fresh one; drain / clear steps inside generated histories; "
    "leak patterns also under Miri; distinct = distinct (kind, recipe, script, leak) cases",
    "assumptions": ASSUME,
    "jobs": lambda tier: [
        iters_job("iters-drain", "Drain", max_n=q(tier, 6, 8), random=q(tier, 2000, 30000), extra={"recipes": q(tier, 4, 8), "adaptors": 0}),
        hist_job("hist-drain", "both", "drainclear,bulk-small", q(tier, 200_000, 4_000_000)),
        miri_job("miri-drain", "iters", {"which": "Drain", "max_n": q(tier, 2, 3), "random": q(tier, 3, 20), "max_size": 10, "adaptors": 0, "recipes": 1, "nshards": q(tier, 6, 12)}, shards=q(tier, 6, 12), leaks_ok=True),
    ],
    "floors": floors(
        floor_stat("iters-drain", ["twin_ops"], 5000, "fresh-twin operations"),
        floor_stat("iters-drain", ["ledger_checks"], 2000, "ledger checks"),
        floor_ops("hist-drain", ["drain", "clear"], 2000),
        floor_stat("miri-drain", ["iter_cases"], 60, "drain cases under Miri"),
    ),
}
PLANS["C17"] = {
    "level": "exploration",
    "rule": "lock-step twin: a generated history with capacity calls (with_capacity*, reserve, reserve_exact, try_reserve*, shrink_to_fit; amounts 0..1000 and near usize::MAX) and the "
    "same history with every capacity call removed must return identical values step by step; capacity post-conditions after every call; allocation-failure injection in the "
    "guarded-allocator binary: during try_reserve* the j-th allocation, or every allocation >= 1 MiB for requests of 2^32..2^50, is refused, or the request overflows; the call "
    "must return (never panic / abort), leave tables and contents untouched and the queue must continue in lock step with its model; distinct as in the history rule + one per injection",
    "assumptions": ASSUME + ["a reservation may succeed after a refused over-allocation (indexmap retries with the exact amount)"],
    "jobs": lambda tier: [
        Job("cap-twins", "ubcheck", "cap", {"twins": q(tier, 250, 5000)}, shards=NPROC, binary="worker_alloc"),
        Job("cap-inject", "ubcheck", "cap", {"twins": 0, "inject": q(tier, 3000, 60_000)}, shards=8, binary="worker_alloc"),
        hist_job("hist-capacity", "both", "capacity", q(tier, 100_000, 2_000_000), shards=8),
    ],
    "floors": floors(
        floor_stat("cap-twins", ["capacity_calls_in_histories"], 5000, "capacity calls inside twin histories"),
        floor_stat("cap-inject", ["injections_returning_err"], 2000, "injected failures answered with Err"),
        floor_stat("cap-inject", ["overflowing_requests"], 500, "overflowing requests"),
    ),
}
PLANS["C18"] = {
    "level": "exploration",
    "rule": "each generated history (explicit operation list, a third of them tie-free) is executed under six BuildHashers - RandomState (fresh keys), BuildHasherDefault<DefaultHasher>, "
    "BuildHasherDefault<XxHash64> through with_hasher, hashbrown's DefaultHashBuilder, a 4-bucket hasher and an all-colliding hasher - each run under all per-step monitors; return "
    "values are compared step by step against the reference run (a difference explained by the choice among equal priorities ends the comparison of that pair); a monitor firing "
    "under one hasher but not under the reference is a violation; distinct as in the history rule",
    "assumptions": ASSUME + ["'all BuildHashers' is represented by six, including the degenerate ones"],
    "jobs": lambda tier: [
        Job("hashers", "ubcheck", "hashers", {"histories": q(tier, 120, 4000)}, shards=NPROC),
        hist_job("hist-degenerate", "both", "churn,churn-single,bulk-small,growth-ties", q(tier, 60_000, 1_000_000), hashers="const,low2,xx,brown", shards=8),
    ],
    "floors": floors(floor_stat("hashers", ["return_values_compared_across_hashers"], 100_000, "return values compared across hashers"), floor_stat("hashers", ["runs_by_hasher", "const"], 500, "runs under the all-colliding hasher")),
}
