//! Controllable global allocator for the `worker_alloc` binary: allocation-failure injection
//! (C17) and a guard that refuses absurd single requests so that a defect which reserves by a
//! huge `size_hint` upper bound is observed as an allocation abort instead of endangering the
//! machine (C07).

use std::alloc::{GlobalAlloc, Layout, System};
use std::sync::atomic::{AtomicBool, AtomicU64, AtomicUsize, Ordering};

pub static INSTALLED: AtomicBool = AtomicBool::new(false);
/// single requests above this many bytes are refused (null)
pub static LIMIT: AtomicUsize = AtomicUsize::new(1 << 30);
/// while armed: the allocation with this ordinal (0-based, counted from arming) fails
pub static FAIL_AT: AtomicU64 = AtomicU64::new(u64::MAX);
/// while armed: requests of at least this many bytes fail
pub static FAIL_MIN: AtomicUsize = AtomicUsize::new(usize::MAX);
pub static ARMED: AtomicBool = AtomicBool::new(false);
pub static COUNT: AtomicU64 = AtomicU64::new(0);
pub static REFUSED: AtomicU64 = AtomicU64::new(0);

pub struct CtlAlloc;

#[inline]
fn refuse(size: usize) -> bool {
    if size > LIMIT.load(Ordering::Relaxed) {
        REFUSED.fetch_add(1, Ordering::Relaxed);
        return true;
    }
    if ARMED.load(Ordering::Relaxed) {
        let n = COUNT.fetch_add(1, Ordering::Relaxed);
        if n == FAIL_AT.load(Ordering::Relaxed) || size >= FAIL_MIN.load(Ordering::Relaxed) {
            REFUSED.fetch_add(1, Ordering::Relaxed);
            return true;
        }
    }
    false
}

unsafe impl GlobalAlloc for CtlAlloc {
    unsafe fn alloc(&self, l: Layout) -> *mut u8 {
        if refuse(l.size()) {
            return std::ptr::null_mut();
        }
        System.alloc(l)
    }
    unsafe fn dealloc(&self, p: *mut u8, l: Layout) {
        System.dealloc(p, l)
    }
    unsafe fn alloc_zeroed(&self, l: Layout) -> *mut u8 {
        if refuse(l.size()) {
            return std::ptr::null_mut();
        }
        System.alloc_zeroed(l)
    }
    unsafe fn realloc(&self, p: *mut u8, l: Layout, new_size: usize) -> *mut u8 {
        if refuse(new_size) {
            return std::ptr::null_mut();
        }
        System.realloc(p, l, new_size)
    }
}

/// Arm failure injection: fail the `nth` allocation from now, and/or every request >= `min_bytes`.
pub fn arm(nth: u64, min_bytes: usize) {
    COUNT.store(0, Ordering::SeqCst);
    FAIL_AT.store(nth, Ordering::SeqCst);
    FAIL_MIN.store(min_bytes, Ordering::SeqCst);
    REFUSED.store(0, Ordering::SeqCst);
    ARMED.store(true, Ordering::SeqCst);
}
/// returns (allocations seen while armed, refused)
pub fn disarm() -> (u64, u64) {
    ARMED.store(false, Ordering::SeqCst);
    (COUNT.load(Ordering::SeqCst), REFUSED.load(Ordering::SeqCst))
}
pub fn installed() -> bool {
    INSTALLED.load(Ordering::SeqCst)
}
