//! One interface over `PriorityQueue<Item, Prio, H>` and `DoublePriorityQueue<Item, Prio, H>`
//! so that the executor, the monitors and the workloads are written once.

use crate::snap::Snap;
use crate::types::*;
use priority_queue::core_iterators::{Drain, IntoIter, Iter};
use priority_queue::{DoublePriorityQueue, PriorityQueue, TryReserveError};
use std::hash::BuildHasher;

#[derive(Clone, Copy, Debug, PartialEq, Eq, Hash, serde::Serialize, serde::Deserialize)]
pub enum Kind {
    Pq,
    Dpq,
}
impl Kind {
    pub fn name(self) -> &'static str {
        match self {
            Kind::Pq => "pq",
            Kind::Dpq => "dpq",
        }
    }
}

#[derive(Clone, Copy, Debug, PartialEq, Eq, Hash, serde::Serialize, serde::Deserialize)]
pub enum End {
    Min,
    Max,
}

/// Compile-time discovery of the traits an iterator type *declares* (autoref specialisation),
/// so that the harness keeps building when a declaration is added or dropped and holds a type
/// only to what it declares.
pub mod probe {
    #[repr(transparent)]
    pub struct Wrap<T>(pub T);
    pub trait LenYes {
        fn p_len(&self) -> Option<usize>;
    }
    impl<T: ExactSizeIterator> LenYes for Wrap<T> {
        fn p_len(&self) -> Option<usize> {
            Some(self.0.len())
        }
    }
    pub trait LenNo {
        fn p_len(&self) -> Option<usize>;
    }
    impl<T> LenNo for &Wrap<T> {
        fn p_len(&self) -> Option<usize> {
            None
        }
    }
    pub trait BackYes {
        type X;
        fn p_next_back(&mut self) -> Option<Option<Self::X>>;
    }
    impl<T: DoubleEndedIterator> BackYes for Wrap<T> {
        type X = T::Item;
        fn p_next_back(&mut self) -> Option<Option<T::Item>> {
            Some(self.0.next_back())
        }
    }
    pub trait BackNo {
        type X;
        fn p_next_back(&mut self) -> Option<Option<Self::X>>;
    }
    impl<T: Iterator> BackNo for &mut Wrap<T> {
        type X = T::Item;
        fn p_next_back(&mut self) -> Option<Option<T::Item>> {
            None
        }
    }
    pub trait FusedYes {
        fn p_fused(&self) -> bool;
    }
    impl<T: std::iter::FusedIterator> FusedYes for Wrap<T> {
        fn p_fused(&self) -> bool {
            true
        }
    }
    pub trait FusedNo {
        fn p_fused(&self) -> bool;
    }
    impl<T> FusedNo for &Wrap<T> {
        fn p_fused(&self) -> bool {
            false
        }
    }
    /// `len()` of an arbitrary (adaptor) iterator if it declares an exact size
    #[macro_export]
    macro_rules! probe_len {
        ($it:expr) => {{
            #[allow(unused_imports)]
            use $crate::api::probe::{LenNo, LenYes};
            let w = $crate::api::probe::Wrap($it);
            (&w).p_len()
        }};
    }
}

/// Consumers that go through the specialisable iterator methods (nth, nth_back, fold, rfold,
/// try_fold, last, len-based adaptors). `consume_de!` needs DoubleEndedIterator + ExactSizeIterator
/// at compile time, `consume_fwd!` only Iterator. Returns None for a consumer that does not apply.
pub const CONSUMERS: [&str; 22] = [
    "nth(k)+rest", "nth_back(k)+rest", "take(k).rev()", "rev().skip(k)", "skip(k).rev()", "step_by(k+1)", "rev().step_by(k+1)", "last()",
    "for_each", "rev().for_each", "by_ref().take(k)+rest", "by_ref().rev().take(k)+rest", "peekable: peek, nth(k), next_back, rest", "step_by(k+1).rev()", "skip(k).step_by(2)",
    "next, nth_back(k), len-check, rest", "next, rev().skip(k)", "next_back, nth(k), len-check, rest", "next, next_back, rev().step_by(k+1)", "next, next, nth_back(k), nth_back(k), len-check, rest",
    "take k from the front, then count() against len()", "take k from the back, then count() against len()",
];
#[macro_export]
macro_rules! consume_de {
    ($it:expr, $how:expr, $k:expr) => {{
        let mut it = $it;
        let k: usize = $k;
        match $how {
            0 => {
                let mut v = Vec::new();
                if let Some(x) = it.nth(k) {
                    v.push(x);
                }
                v.extend(it);
                Some(v)
            }
            1 => {
                let mut v = Vec::new();
                if let Some(x) = it.nth_back(k) {
                    v.push(x);
                }
                v.extend(it);
                Some(v)
            }
            2 => Some(it.take(k).rev().collect::<Vec<_>>()),
            3 => Some(it.rev().skip(k).collect::<Vec<_>>()),
            4 => Some(it.skip(k).rev().collect::<Vec<_>>()),
            5 => Some(it.step_by(k + 1).collect::<Vec<_>>()),
            6 => Some(it.rev().step_by(k + 1).collect::<Vec<_>>()),
            7 => Some(it.last().into_iter().collect::<Vec<_>>()),
            8 => {
                let mut v = Vec::new();
                it.for_each(|x| v.push(x));
                Some(v)
            }
            9 => {
                let mut v = Vec::new();
                it.rev().for_each(|x| v.push(x));
                Some(v)
            }
            10 => {
                let mut v: Vec<_> = it.by_ref().take(k).collect();
                v.extend(it);
                Some(v)
            }
            11 => {
                let mut v: Vec<_> = it.by_ref().rev().take(k).collect();
                v.extend(it);
                Some(v)
            }
            12 => {
                let mut p = it.peekable();
                let _ = p.peek();
                let mut v = Vec::new();
                if let Some(x) = p.nth(k) {
                    v.push(x);
                }
                if let Some(x) = p.next_back() {
                    v.push(x);
                }
                v.extend(p);
                Some(v)
            }
            13 => Some(it.step_by(k + 1).rev().collect::<Vec<_>>()),
            14 => Some(it.skip(k).step_by(2).collect::<Vec<_>>()),
            15 => {
                let mut v = Vec::new();
                if let Some(x) = it.next() {
                    v.push(x);
                }
                if let Some(x) = it.nth_back(k) {
                    v.push(x);
                }
                let l = it.len();
                let h = it.size_hint();
                let rest: Vec<_> = it.collect();
                assert!(l == rest.len() && h == (l, Some(l)), "after next, nth_back({}): len() = {}, size_hint() = {:?} but {} elements follow", k, l, h, rest.len());
                v.extend(rest);
                Some(v)
            }
            16 => {
                let mut v = Vec::new();
                if let Some(x) = it.next() {
                    v.push(x);
                }
                v.extend(it.rev().skip(k));
                Some(v)
            }
            17 => {
                let mut v = Vec::new();
                if let Some(x) = it.next_back() {
                    v.push(x);
                }
                if let Some(x) = it.nth(k) {
                    v.push(x);
                }
                let l = it.len();
                let h = it.size_hint();
                let rest: Vec<_> = it.collect();
                assert!(l == rest.len() && h == (l, Some(l)), "after next_back, nth({}): len() = {}, size_hint() = {:?} but {} elements follow", k, l, h, rest.len());
                v.extend(rest);
                Some(v)
            }
            18 => {
                let mut v = Vec::new();
                if let Some(x) = it.next() {
                    v.push(x);
                }
                if let Some(x) = it.next_back() {
                    v.push(x);
                }
                v.extend(it.rev().step_by(k + 1));
                Some(v)
            }
            19 => {
                let mut v = Vec::new();
                for _ in 0..2 {
                    if let Some(x) = it.next() {
                        v.push(x);
                    }
                }
                for _ in 0..2 {
                    if let Some(x) = it.nth_back(k) {
                        v.push(x);
                    }
                }
                let l = it.len();
                let rest: Vec<_> = it.collect();
                assert!(l == rest.len(), "after 2x next, 2x nth_back({}): len() = {} but {} elements follow", k, l, rest.len());
                v.extend(rest);
                Some(v)
            }
            20 => {
                let mut v = Vec::new();
                for _ in 0..k {
                    if let Some(x) = it.next() {
                        v.push(x);
                    }
                }
                let l = it.len();
                let c = it.count();
                assert!(l == c, "after {} next(): len() = {} but count() = {}", k, l, c);
                Some(v)
            }
            21 => {
                let mut v = Vec::new();
                for _ in 0..k {
                    if let Some(x) = it.next_back() {
                        v.push(x);
                    }
                }
                let l = it.len();
                let c = it.count();
                assert!(l == c, "after {} next_back(): len() = {} but count() = {}", k, l, c);
                Some(v)
            }
            _ => None,
        }
    }};
}
#[macro_export]
macro_rules! consume_fwd {
    ($it:expr, $how:expr, $k:expr) => {{
        let mut it = $it;
        let k: usize = $k;
        match $how {
            0 => {
                let mut v = Vec::new();
                if let Some(x) = it.nth(k) {
                    v.push(x);
                }
                v.extend(it);
                Some(v)
            }
            5 => Some(it.step_by(k + 1).collect::<Vec<_>>()),
            7 => Some(it.last().into_iter().collect::<Vec<_>>()),
            8 => {
                let mut v = Vec::new();
                it.for_each(|x| v.push(x));
                Some(v)
            }
            10 => {
                let mut v: Vec<_> = it.by_ref().take(k).collect();
                v.extend(it);
                Some(v)
            }
            14 => Some(it.skip(k).step_by(2).collect::<Vec<_>>()),
            _ => None,
        }
    }};
}

pub trait HasherCfg: BuildHasher + Default + Clone + 'static {
    const NAME: &'static str;
    /// lookups are linear under this hasher: keep sizes small
    const DEGENERATE: bool = false;
}
impl HasherCfg for StdRandom {
    const NAME: &'static str = "RandomState";
}
impl HasherCfg for FixedState {
    const NAME: &'static str = "BuildHasherDefault<DefaultHasher>";
}
impl HasherCfg for XxState {
    const NAME: &'static str = "BuildHasherDefault<XxHash64>";
}
impl HasherCfg for BrownState {
    const NAME: &'static str = "hashbrown::DefaultHashBuilder";
}
impl HasherCfg for ConstState {
    const NAME: &'static str = "ConstState(all collide)";
    const DEGENERATE: bool = true;
}
impl HasherCfg for Low2State {
    const NAME: &'static str = "Low2State(4 buckets)";
    const DEGENERATE: bool = true;
}

pub trait QueueApi: Sized + 'static {
    type H: HasherCfg;
    type Other: QueueApi<H = Self::H, Other = Self>;
    type IterMut<'a>: Iterator<Item = (&'a mut Item, &'a mut Prio)>
    where
        Self: 'a;
    const KIND: Kind;
    fn ends() -> &'static [End] {
        match Self::KIND {
            Kind::Pq => &[End::Max],
            Kind::Dpq => &[End::Min, End::Max],
        }
    }

    // constructors
    fn q_new() -> Self;
    fn q_with_capacity(c: usize) -> Self;
    fn q_default() -> Self;
    fn q_with_default_hasher() -> Self;
    fn q_with_capacity_and_default_hasher(c: usize) -> Self;
    fn q_with_hasher(h: Self::H) -> Self;
    fn q_with_capacity_and_hasher(c: usize, h: Self::H) -> Self;
    fn q_from_vec(v: Vec<(Item, Prio)>) -> Self;
    fn q_from_iter<T: IntoIterator<Item = (Item, Prio)>>(it: T) -> Self;
    fn q_from_other(o: Self::Other) -> Self;
    fn q_clone(&self) -> Self;
    fn q_clone_from(&mut self, src: &Self);

    // single-element operations
    fn push(&mut self, i: Item, p: Prio) -> Option<Prio>;
    fn push_increase(&mut self, i: Item, p: Prio) -> Option<Prio>;
    fn push_decrease(&mut self, i: Item, p: Prio) -> Option<Prio>;
    fn change_priority(&mut self, i: &Item, p: Prio) -> Option<Prio>;
    fn change_priority_k(&mut self, k: &Key, p: Prio) -> Option<Prio>;
    fn change_priority_by<F: FnOnce(&mut Prio)>(&mut self, i: &Item, f: F) -> bool;
    fn change_priority_by_k<F: FnOnce(&mut Prio)>(&mut self, k: &Key, f: F) -> bool;
    fn remove(&mut self, i: &Item) -> Option<(Item, Prio)>;
    fn remove_k(&mut self, k: &Key) -> Option<(Item, Prio)>;
    fn get(&self, i: &Item) -> Option<(&Item, &Prio)>;
    fn get_k(&self, k: &Key) -> Option<(&Item, &Prio)>;
    fn get_priority(&self, i: &Item) -> Option<&Prio>;
    fn get_priority_k(&self, k: &Key) -> Option<&Prio>;
    fn get_mut(&mut self, i: &Item) -> Option<(&mut Item, &Prio)>;
    fn get_mut_k(&mut self, k: &Key) -> Option<(&mut Item, &Prio)>;

    // extremes
    fn peek(&self, e: End) -> Option<(&Item, &Prio)>;
    fn peek_mut(&mut self, e: End) -> Option<(&mut Item, &Prio)>;
    fn pop(&mut self, e: End) -> Option<(Item, Prio)>;
    fn pop_if<F: FnOnce(&mut Item, &mut Prio) -> bool>(&mut self, e: End, f: F) -> Option<(Item, Prio)>;

    // observers
    fn len(&self) -> usize;
    fn is_empty(&self) -> bool;
    fn capacity(&self) -> usize;
    fn iter(&self) -> Iter<'_, Item, Prio>;
    fn iter_ref(&self) -> Iter<'_, Item, Prio>; // through `&queue`
    fn debug_string(&self) -> String;
    fn eq_q(&self, o: &Self) -> bool;
    fn ne_q(&self, o: &Self) -> bool;

    // bulk
    fn iter_mut(&mut self) -> Self::IterMut<'_>;
    fn iter_mut_ref(&mut self) -> Self::IterMut<'_>; // through `&mut queue`
    fn retain<F: FnMut(&Item, &Prio) -> bool>(&mut self, f: F);
    fn retain_mut<F: FnMut(&mut Item, &mut Prio) -> bool>(&mut self, f: F);
    fn extend<T: IntoIterator<Item = (Item, Prio)>>(&mut self, it: T);
    fn append(&mut self, o: &mut Self);
    fn drain(&mut self) -> Drain<'_, Item, Prio>;
    fn clear(&mut self);

    // consuming
    fn into_iter_q(self) -> IntoIter<Item, Prio>;
    fn into_vec(self) -> Vec<Item>;
    /// all pairs through the sorted iterator; `desc` = non-increasing order.
    /// Pq supports only `desc = true`.
    fn into_sorted_pairs(self, desc: bool) -> Vec<(Item, Prio)>;
    /// items through into_sorted_vec / into_ascending_sorted_vec / into_descending_sorted_vec
    fn into_sorted_items(self, desc: bool) -> Vec<Item>;

    // capacity
    fn reserve(&mut self, n: usize);
    fn reserve_exact(&mut self, n: usize);
    fn try_reserve(&mut self, n: usize) -> Result<(), TryReserveError>;
    fn try_reserve_exact(&mut self, n: usize) -> Result<(), TryReserveError>;
    fn shrink_to_fit(&mut self);

    // serde
    fn to_json(&self) -> Result<String, String>;
    fn from_json(s: &str) -> Result<Self, String>;

    fn deserialize_from<'de, D: serde::Deserializer<'de>>(d: D) -> Result<Self, D::Error>;
    /// serde_test: the value serializes to exactly these tokens / deserializes from them to an equal value
    fn assert_ser_tokens(&self, tokens: &[serde_test::Token]);
    fn assert_de_tokens(&self, tokens: &[serde_test::Token]);

    // hook
    fn snapshot(&self) -> Snap;

    // declared capabilities of the kind-specific iterator types (see `probe`)
    type Sorted: Iterator<Item = (Item, Prio)>;
    fn into_sorted_iter_q(self) -> Self::Sorted;
    /// `None` = the type does not offer next_back
    fn im_next_back<'a>(it: &mut Self::IterMut<'a>) -> Option<Option<(&'a mut Item, &'a mut Prio)>>;
    /// `None` = the type does not declare an exact size
    fn im_len(it: &Self::IterMut<'_>) -> Option<usize>;
    fn im_fused(it: &Self::IterMut<'_>) -> bool;
    fn im_adaptor_len(q: &mut Self, which: usize, k: usize) -> (&'static str, Option<usize>, usize);
    fn so_next_back(it: &mut Self::Sorted) -> Option<Option<(Item, Prio)>>;
    fn so_len(it: &Self::Sorted) -> Option<usize>;
    fn so_adaptor_lens(q: Self, which: usize, k: usize) -> (&'static str, Option<usize>, usize);
    /// consume the sorted iterator / iter_mut through consumer `how` (see CONSUMERS); None = not applicable to this type
    fn so_consume(q: Self, how: usize, k: usize) -> Option<Vec<(u32, i64)>>;
    fn im_consume(q: &mut Self, how: usize, k: usize) -> Option<Vec<(u32, i64)>>;
    /// the same consumer over the sorted iterator wrapped so that only `next` / `next_back` /
    /// `size_hint` reach it: every other iterator method is then the std default built on those
    fn so_consume_plain(q: Self, how: usize, k: usize) -> Option<Vec<(u32, i64)>>;
}

/// Forwards only the required methods of a forward iterator.
pub struct PlainFwd<I>(pub I);
impl<I: Iterator> Iterator for PlainFwd<I> {
    type Item = I::Item;
    fn next(&mut self) -> Option<I::Item> {
        self.0.next()
    }
    fn size_hint(&self) -> (usize, Option<usize>) {
        self.0.size_hint()
    }
}
impl<I: ExactSizeIterator> ExactSizeIterator for PlainFwd<I> {}

/// Forwards only the required methods of a double-ended iterator.
pub struct PlainDe<I>(pub I);
impl<I: Iterator> Iterator for PlainDe<I> {
    type Item = I::Item;
    fn next(&mut self) -> Option<I::Item> {
        self.0.next()
    }
    fn size_hint(&self) -> (usize, Option<usize>) {
        self.0.size_hint()
    }
}
impl<I: DoubleEndedIterator> DoubleEndedIterator for PlainDe<I> {
    fn next_back(&mut self) -> Option<I::Item> {
        self.0.next_back()
    }
}
impl<I: ExactSizeIterator> ExactSizeIterator for PlainDe<I> {}

macro_rules! common_methods {
    ($Q:ident, $H:ty) => {
        fn q_default() -> Self {
            <$Q<Item, Prio, $H> as Default>::default()
        }
        fn q_with_default_hasher() -> Self {
            $Q::with_default_hasher()
        }
        fn q_with_capacity_and_default_hasher(c: usize) -> Self {
            $Q::with_capacity_and_default_hasher(c)
        }
        fn q_with_hasher(h: $H) -> Self {
            $Q::with_hasher(h)
        }
        fn q_with_capacity_and_hasher(c: usize, h: $H) -> Self {
            $Q::with_capacity_and_hasher(c, h)
        }
        fn q_from_vec(v: Vec<(Item, Prio)>) -> Self {
            $Q::from(v)
        }
        fn q_from_iter<T: IntoIterator<Item = (Item, Prio)>>(it: T) -> Self {
            it.into_iter().collect()
        }
        fn q_from_other(o: Self::Other) -> Self {
            $Q::from(o)
        }
        fn q_clone(&self) -> Self {
            self.clone()
        }
        fn q_clone_from(&mut self, src: &Self) {
            Clone::clone_from(self, src)
        }
        fn push(&mut self, i: Item, p: Prio) -> Option<Prio> {
            $Q::push(self, i, p)
        }
        fn push_increase(&mut self, i: Item, p: Prio) -> Option<Prio> {
            $Q::push_increase(self, i, p)
        }
        fn push_decrease(&mut self, i: Item, p: Prio) -> Option<Prio> {
            $Q::push_decrease(self, i, p)
        }
        fn change_priority(&mut self, i: &Item, p: Prio) -> Option<Prio> {
            $Q::change_priority(self, i, p)
        }
        fn change_priority_k(&mut self, k: &Key, p: Prio) -> Option<Prio> {
            $Q::change_priority(self, k, p)
        }
        fn change_priority_by<F: FnOnce(&mut Prio)>(&mut self, i: &Item, f: F) -> bool {
            $Q::change_priority_by(self, i, f)
        }
        fn change_priority_by_k<F: FnOnce(&mut Prio)>(&mut self, k: &Key, f: F) -> bool {
            $Q::change_priority_by(self, k, f)
        }
        fn remove(&mut self, i: &Item) -> Option<(Item, Prio)> {
            $Q::remove(self, i)
        }
        fn remove_k(&mut self, k: &Key) -> Option<(Item, Prio)> {
            $Q::remove(self, k)
        }
        fn get(&self, i: &Item) -> Option<(&Item, &Prio)> {
            $Q::get(self, i)
        }
        fn get_k(&self, k: &Key) -> Option<(&Item, &Prio)> {
            $Q::get(self, k)
        }
        fn get_priority(&self, i: &Item) -> Option<&Prio> {
            $Q::get_priority(self, i)
        }
        fn get_priority_k(&self, k: &Key) -> Option<&Prio> {
            $Q::get_priority(self, k)
        }
        fn get_mut(&mut self, i: &Item) -> Option<(&mut Item, &Prio)> {
            $Q::get_mut(self, i)
        }
        fn get_mut_k(&mut self, k: &Key) -> Option<(&mut Item, &Prio)> {
            $Q::get_mut(self, k)
        }
        fn len(&self) -> usize {
            $Q::len(self)
        }
        fn is_empty(&self) -> bool {
            $Q::is_empty(self)
        }
        fn capacity(&self) -> usize {
            $Q::capacity(self)
        }
        fn iter(&self) -> Iter<'_, Item, Prio> {
            $Q::iter(self)
        }
        fn iter_ref(&self) -> Iter<'_, Item, Prio> {
            <&Self as IntoIterator>::into_iter(self)
        }
        fn debug_string(&self) -> String {
            format!("{:?}", self)
        }
        fn eq_q(&self, o: &Self) -> bool {
            self == o
        }
        fn ne_q(&self, o: &Self) -> bool {
            self != o
        }
        fn iter_mut(&mut self) -> Self::IterMut<'_> {
            $Q::iter_mut(self)
        }
        fn iter_mut_ref(&mut self) -> Self::IterMut<'_> {
            <&mut Self as IntoIterator>::into_iter(self)
        }
        fn retain<F: FnMut(&Item, &Prio) -> bool>(&mut self, f: F) {
            $Q::retain(self, f)
        }
        fn retain_mut<F: FnMut(&mut Item, &mut Prio) -> bool>(&mut self, f: F) {
            $Q::retain_mut(self, f)
        }
        fn extend<T: IntoIterator<Item = (Item, Prio)>>(&mut self, it: T) {
            Extend::extend(self, it)
        }
        fn append(&mut self, o: &mut Self) {
            $Q::append(self, o)
        }
        fn drain(&mut self) -> Drain<'_, Item, Prio> {
            $Q::drain(self)
        }
        fn clear(&mut self) {
            $Q::clear(self)
        }
        fn into_iter_q(self) -> IntoIter<Item, Prio> {
            IntoIterator::into_iter(self)
        }
        fn into_vec(self) -> Vec<Item> {
            $Q::into_vec(self)
        }
        fn reserve(&mut self, n: usize) {
            $Q::reserve(self, n)
        }
        fn reserve_exact(&mut self, n: usize) {
            $Q::reserve_exact(self, n)
        }
        fn try_reserve(&mut self, n: usize) -> Result<(), TryReserveError> {
            $Q::try_reserve(self, n)
        }
        fn try_reserve_exact(&mut self, n: usize) -> Result<(), TryReserveError> {
            $Q::try_reserve_exact(self, n)
        }
        fn shrink_to_fit(&mut self) {
            $Q::shrink_to_fit(self)
        }
        fn to_json(&self) -> Result<String, String> {
            serde_json::to_string(self).map_err(|e| e.to_string())
        }
        fn from_json(s: &str) -> Result<Self, String> {
            serde_json::from_str(s).map_err(|e| e.to_string())
        }
        fn deserialize_from<'de, D: serde::Deserializer<'de>>(d: D) -> Result<Self, D::Error> {
            <Self as serde::Deserialize>::deserialize(d)
        }
        fn assert_ser_tokens(&self, tokens: &[serde_test::Token]) {
            serde_test::assert_ser_tokens(self, tokens)
        }
        fn assert_de_tokens(&self, tokens: &[serde_test::Token]) {
            serde_test::assert_de_tokens(self, tokens)
        }
        fn snapshot(&self) -> Snap {
            Snap::from_hook(self.verif_snapshot())
        }
        fn into_sorted_iter_q(self) -> Self::Sorted {
            self.into_sorted_iter()
        }
        #[allow(unused_imports)]
        fn im_next_back<'a>(it: &mut Self::IterMut<'a>) -> Option<Option<(&'a mut Item, &'a mut Prio)>> {
            use probe::{BackNo, BackYes};
            // SAFETY of the cast: Wrap is a transparent newtype used only to select the impl
            let w: &mut probe::Wrap<Self::IterMut<'a>> = unsafe { &mut *(it as *mut Self::IterMut<'a> as *mut probe::Wrap<Self::IterMut<'a>>) };
            (&mut *w).p_next_back()
        }
        #[allow(unused_imports)]
        fn im_len(it: &Self::IterMut<'_>) -> Option<usize> {
            use probe::{LenNo, LenYes};
            let w: &probe::Wrap<Self::IterMut<'_>> = unsafe { &*(it as *const Self::IterMut<'_> as *const probe::Wrap<Self::IterMut<'_>>) };
            (&*w).p_len()
        }
        #[allow(unused_imports)]
        fn im_fused(it: &Self::IterMut<'_>) -> bool {
            use probe::{FusedNo, FusedYes};
            let w: &probe::Wrap<Self::IterMut<'_>> = unsafe { &*(it as *const Self::IterMut<'_> as *const probe::Wrap<Self::IterMut<'_>>) };
            (&*w).p_fused()
        }
        /// (adaptor name, its len() if the composition declares an exact size, the true count)
        fn im_adaptor_len(q: &mut Self, which: usize, k: usize) -> (&'static str, Option<usize>, usize) {
            let n = $Q::len(q);
            match which {
                0 => ("iter_mut().take(k)", $crate::probe_len!(q.iter_mut().take(k)), n.min(k)),
                1 => ("iter_mut().skip(k)", $crate::probe_len!(q.iter_mut().skip(k)), n.saturating_sub(k)),
                2 => ("iter_mut().enumerate()", $crate::probe_len!(q.iter_mut().enumerate()), n),
                3 => ("iter_mut().peekable()", $crate::probe_len!(q.iter_mut().peekable()), n),
                4 => ("iter_mut().zip(0..k)", $crate::probe_len!(q.iter_mut().zip(0..k)), n.min(k)),
                _ => ("iter_mut().step_by(k+1)", $crate::probe_len!(q.iter_mut().step_by(k + 1)), (n + k) / (k + 1)),
            }
        }
        #[allow(unused_imports)]
        fn so_next_back(it: &mut Self::Sorted) -> Option<Option<(Item, Prio)>> {
            use probe::{BackNo, BackYes};
            let w: &mut probe::Wrap<Self::Sorted> = unsafe { &mut *(it as *mut Self::Sorted as *mut probe::Wrap<Self::Sorted>) };
            (&mut *w).p_next_back()
        }
        #[allow(unused_imports)]
        fn so_len(it: &Self::Sorted) -> Option<usize> {
            use probe::{LenNo, LenYes};
            let w: &probe::Wrap<Self::Sorted> = unsafe { &*(it as *const Self::Sorted as *const probe::Wrap<Self::Sorted>) };
            (&*w).p_len()
        }
        fn so_adaptor_lens(q: Self, which: usize, k: usize) -> (&'static str, Option<usize>, usize) {
            let n = $Q::len(&q);
            match which {
                0 => ("into_sorted_iter().take(k)", $crate::probe_len!(q.into_sorted_iter().take(k)), n.min(k)),
                1 => ("into_sorted_iter().skip(k)", $crate::probe_len!(q.into_sorted_iter().skip(k)), n.saturating_sub(k)),
                2 => ("into_sorted_iter().enumerate()", $crate::probe_len!(q.into_sorted_iter().enumerate()), n),
                3 => ("into_sorted_iter().peekable()", $crate::probe_len!(q.into_sorted_iter().peekable()), n),
                4 => ("into_sorted_iter().zip(0..k)", $crate::probe_len!(q.into_sorted_iter().zip(0..k)), n.min(k)),
                _ => ("into_sorted_iter().step_by(k+1)", $crate::probe_len!(q.into_sorted_iter().step_by(k + 1)), (n + k) / (k + 1)),
            }
        }
    };
}

macro_rules! impl_api {
    ($H:ty, $pq_new:expr, $pq_cap:expr, $dpq_new:expr, $dpq_cap:expr) => {
        impl QueueApi for PriorityQueue<Item, Prio, $H> {
            type H = $H;
            type Other = DoublePriorityQueue<Item, Prio, $H>;
            type IterMut<'a> = priority_queue::priority_queue::iterators::IterMut<'a, Item, Prio, $H>;
            type Sorted = priority_queue::priority_queue::iterators::IntoSortedIter<Item, Prio, $H>;
            const KIND: Kind = Kind::Pq;
            fn q_new() -> Self {
                $pq_new
            }
            fn q_with_capacity(c: usize) -> Self {
                ($pq_cap)(c)
            }
            common_methods!(PriorityQueue, $H);
            fn peek(&self, e: End) -> Option<(&Item, &Prio)> {
                assert!(e == End::Max);
                PriorityQueue::peek(self)
            }
            fn peek_mut(&mut self, e: End) -> Option<(&mut Item, &Prio)> {
                assert!(e == End::Max);
                PriorityQueue::peek_mut(self)
            }
            fn pop(&mut self, e: End) -> Option<(Item, Prio)> {
                assert!(e == End::Max);
                PriorityQueue::pop(self)
            }
            fn pop_if<F: FnOnce(&mut Item, &mut Prio) -> bool>(&mut self, e: End, f: F) -> Option<(Item, Prio)> {
                assert!(e == End::Max);
                PriorityQueue::pop_if(self, f)
            }
            fn into_sorted_pairs(self, desc: bool) -> Vec<(Item, Prio)> {
                assert!(desc);
                self.into_sorted_iter().collect()
            }
            fn into_sorted_items(self, desc: bool) -> Vec<Item> {
                assert!(desc);
                self.into_sorted_vec()
            }
            fn so_consume(q: Self, how: usize, k: usize) -> Option<Vec<(u32, i64)>> {
                $crate::consume_fwd!(q.into_sorted_iter(), how, k).map(|v: Vec<(Item, Prio)>| v.iter().map(|(i, p)| (i.id(), p.ord)).collect())
            }
            fn so_consume_plain(q: Self, how: usize, k: usize) -> Option<Vec<(u32, i64)>> {
                $crate::consume_fwd!(PlainFwd(q.into_sorted_iter()), how, k).map(|v: Vec<(Item, Prio)>| v.iter().map(|(i, p)| (i.id(), p.ord)).collect())
            }
            fn im_consume(q: &mut Self, how: usize, k: usize) -> Option<Vec<(u32, i64)>> {
                $crate::consume_fwd!(q.iter_mut(), how, k).map(|v: Vec<(&mut Item, &mut Prio)>| v.iter().map(|(i, p)| (i.id(), p.ord)).collect())
            }
        }
        impl QueueApi for DoublePriorityQueue<Item, Prio, $H> {
            type H = $H;
            type Other = PriorityQueue<Item, Prio, $H>;
            type IterMut<'a> = priority_queue::double_priority_queue::iterators::IterMut<'a, Item, Prio, $H>;
            type Sorted = priority_queue::double_priority_queue::iterators::IntoSortedIter<Item, Prio, $H>;
            const KIND: Kind = Kind::Dpq;
            fn q_new() -> Self {
                $dpq_new
            }
            fn q_with_capacity(c: usize) -> Self {
                ($dpq_cap)(c)
            }
            common_methods!(DoublePriorityQueue, $H);
            fn peek(&self, e: End) -> Option<(&Item, &Prio)> {
                match e {
                    End::Min => self.peek_min(),
                    End::Max => self.peek_max(),
                }
            }
            fn peek_mut(&mut self, e: End) -> Option<(&mut Item, &Prio)> {
                match e {
                    End::Min => self.peek_min_mut(),
                    End::Max => self.peek_max_mut(),
                }
            }
            fn pop(&mut self, e: End) -> Option<(Item, Prio)> {
                match e {
                    End::Min => self.pop_min(),
                    End::Max => self.pop_max(),
                }
            }
            fn pop_if<F: FnOnce(&mut Item, &mut Prio) -> bool>(&mut self, e: End, f: F) -> Option<(Item, Prio)> {
                match e {
                    End::Min => self.pop_min_if(f),
                    End::Max => self.pop_max_if(f),
                }
            }
            fn into_sorted_pairs(self, desc: bool) -> Vec<(Item, Prio)> {
                if desc {
                    self.into_sorted_iter().rev().collect()
                } else {
                    self.into_sorted_iter().collect()
                }
            }
            fn into_sorted_items(self, desc: bool) -> Vec<Item> {
                if desc {
                    self.into_descending_sorted_vec()
                } else {
                    self.into_ascending_sorted_vec()
                }
            }
            fn so_consume(q: Self, how: usize, k: usize) -> Option<Vec<(u32, i64)>> {
                $crate::consume_de!(q.into_sorted_iter(), how, k).map(|v: Vec<(Item, Prio)>| v.iter().map(|(i, p)| (i.id(), p.ord)).collect())
            }
            fn so_consume_plain(q: Self, how: usize, k: usize) -> Option<Vec<(u32, i64)>> {
                $crate::consume_de!(PlainDe(q.into_sorted_iter()), how, k).map(|v: Vec<(Item, Prio)>| v.iter().map(|(i, p)| (i.id(), p.ord)).collect())
            }
            fn im_consume(q: &mut Self, how: usize, k: usize) -> Option<Vec<(u32, i64)>> {
                $crate::consume_de!(q.iter_mut(), how, k).map(|v: Vec<(&mut Item, &mut Prio)>| v.iter().map(|(i, p)| (i.id(), p.ord)).collect())
            }
        }
    };
}

impl_api!(
    StdRandom,
    PriorityQueue::new(),
    PriorityQueue::with_capacity,
    DoublePriorityQueue::new(),
    DoublePriorityQueue::with_capacity
);
impl_api!(
    FixedState,
    PriorityQueue::with_default_hasher(),
    PriorityQueue::with_capacity_and_default_hasher,
    DoublePriorityQueue::with_default_hasher(),
    DoublePriorityQueue::with_capacity_and_default_hasher
);
impl_api!(
    XxState,
    PriorityQueue::with_hasher(XxState::default()),
    |c| PriorityQueue::with_capacity_and_hasher(c, XxState::default()),
    DoublePriorityQueue::with_hasher(XxState::default()),
    |c| DoublePriorityQueue::with_capacity_and_hasher(c, XxState::default())
);
impl_api!(
    BrownState,
    PriorityQueue::with_default_hasher(),
    PriorityQueue::with_capacity_and_default_hasher,
    DoublePriorityQueue::with_default_hasher(),
    DoublePriorityQueue::with_capacity_and_default_hasher
);
impl_api!(
    ConstState,
    PriorityQueue::with_hasher(ConstState),
    |c| PriorityQueue::with_capacity_and_hasher(c, ConstState),
    DoublePriorityQueue::with_hasher(ConstState),
    |c| DoublePriorityQueue::with_capacity_and_hasher(c, ConstState)
);
impl_api!(
    Low2State,
    PriorityQueue::with_hasher(Low2State),
    |c| PriorityQueue::with_capacity_and_hasher(c, Low2State),
    DoublePriorityQueue::with_hasher(Low2State),
    |c| DoublePriorityQueue::with_capacity_and_hasher(c, Low2State)
);

pub type PqOf<H> = PriorityQueue<Item, Prio, H>;
pub type DpqOf<H> = DoublePriorityQueue<Item, Prio, H>;
