//! Small-scope exhaustive exploration of the REAL implementation: breadth-first over the concrete
//! states (heap table, slot table, (id, priority) per slot) reachable over a tiny universe,
//! executing every operation of the alphabet from every state under all per-step monitors.
//! Still runtime monitoring (the oracle watches real executions) but without seed luck.

use crate::api::*;
use crate::cli::{Args, Journal, Sink};
use crate::hist::{History, Report};
use crate::model::Model;
use crate::ops::*;
use crate::types::*;
use std::collections::{HashMap, VecDeque};
use std::panic::{catch_unwind, AssertUnwindSafe};

fn alphabet<Q: QueueApi>(u: u32, r: i64, m: &Model, wide: bool) -> Vec<Op> {
    let mut v = Vec::new();
    for id in 0..u {
        for ord in 0..r {
            v.push(Op::Push { id, ord });
            v.push(Op::PushInc { id, ord });
            v.push(Op::PushDec { id, ord });
            v.push(Op::Change { id, ord, k: id % 2 == 0 });
            v.push(Op::ChangeBy { id, ord, k: id % 2 == 1 });
        }
        v.push(Op::Remove { id, k: id % 2 == 0 });
    }
    for &end in Q::ends() {
        v.push(Op::Pop { end });
        v.push(Op::PeekMut { end, touch: true });
        for accept in [true, false] {
            v.push(Op::PopIf { end, accept, rewrite: None, touch: !accept });
            for ord in 0..r {
                v.push(Op::PopIf { end, accept, rewrite: Some(ord), touch: false });
            }
        }
    }
    let ids = m.ids();
    // every subset kept
    for mask in 0..(1u32 << ids.len()) {
        let keep: Vec<u32> = ids.iter().enumerate().filter(|(i, _)| (mask >> i) & 1 == 1).map(|(_, x)| *x).collect();
        v.push(Op::Retain { pred: Pred::Ids(keep) });
    }
    // rewrite one priority without removing anything / while removing one other element
    for &id in &ids {
        for ord in 0..r {
            v.push(Op::RetainMut { pred: Pred::All, rewrite: Rewrite::Map(vec![(id, ord)]) });
            if wide {
                for &gone in &ids {
                    if gone != id {
                        let keep: Vec<u32> = ids.iter().copied().filter(|x| *x != gone).collect();
                        v.push(Op::RetainMut { pred: Pred::Ids(keep), rewrite: Rewrite::Map(vec![(id, ord)]) });
                    }
                }
            }
        }
    }
    // iter_mut: every consumed prefix, one write at every position
    let n = ids.len();
    for consumed in 0..=n + 1 {
        v.push(Op::IterMut { n: consumed, writes: vec![], touch: false, leak: false, via_ref: consumed % 2 == 0, back: 0 });
        if consumed <= n {
            // the rest (and one call more) from the back, where the iterator offers it
            v.push(Op::IterMut { n: consumed, writes: vec![], touch: false, leak: false, via_ref: false, back: n + 1 - consumed });
        }
        for j in 0..consumed.min(n) {
            for ord in 0..r {
                let mut w = vec![None; consumed];
                w[j] = Some(ord);
                v.push(Op::IterMut { n: consumed, writes: w, touch: j == 0, leak: false, via_ref: false, back: 0 });
            }
        }
    }
    for id in 0..u {
        for ord in 0..r {
            v.push(Op::Extend { pairs: vec![(id, ord)], hint: if id % 2 == 0 { Hint::Exact } else { Hint::ZeroNone } });
            v.push(Op::Append { pairs: vec![(id, ord)], cap: 0 });
        }
    }
    if wide {
        for a in 0..u {
            for b in 0..u {
                v.push(Op::Extend { pairs: vec![(a, 0), (b, r - 1)], hint: Hint::ZeroSomeRem });
                v.push(Op::Append { pairs: vec![(a, r - 1), (b, 0), ((a + 1) % u, 0)], cap: 3 });
            }
        }
    }
    v.push(Op::Convert);
    v.push(Op::CloneSwap);
    v.push(Op::CloneFrom { pre: vec![], into_self: false });
    v.push(Op::CloneFrom { pre: vec![(0, 1), (1, 0)], into_self: true });
    v.push(Op::CloneFrom { pre: vec![(7, 1), (8, 0), (9, 2), (10, 1), (11, 0)], into_self: false });
    v.push(Op::Drain { front: 1, back: 1, leak: false });
    v.push(Op::Clear);
    v.push(Op::Shrink);
    v.push(Op::Serde { via_other: false });
    v
}

pub struct BfsOut {
    pub states: u64,
    pub transitions: u64,
    pub exhaustive: bool,
    pub max_size: usize,
    pub op_counts: std::collections::BTreeMap<&'static str, u64>,
}

pub fn bfs<Q: QueueApi>(u: u32, r: i64, max_states: u64, wide: bool, sink: &mut Sink, journal: &mut Journal) -> BfsOut {
    let universe: Vec<u32> = (0..u).collect();
    let mut out = BfsOut { states: 0, transitions: 0, exhaustive: false, max_size: 0, op_counts: Default::default() };
    let mut parent: HashMap<u64, (u64, Option<Op>)> = HashMap::new();
    let mut frontier: VecDeque<(u64, Q)> = VecDeque::new();
    let q0 = Q::q_new();
    let k0 = q0.snapshot().state_key();
    parent.insert(k0, (k0, None));
    frontier.push_back((k0, q0));
    let path_to = |parent: &HashMap<u64, (u64, Option<Op>)>, mut k: u64| -> Vec<Op> {
        let mut ops = Vec::new();
        while let Some((pk, Some(op))) = parent.get(&k).map(|(a, b)| (*a, b.clone())) {
            ops.push(op);
            k = pk;
        }
        ops.reverse();
        ops
    };
    while let Some((key, q)) = frontier.pop_front() {
        out.states += 1;
        let snap = q.snapshot();
        out.max_size = out.max_size.max(snap.size);
        let model = Model::from_snap(&snap);
        for op in alphabet::<Q>(u, r, &model, wide) {
            out.transitions += 1;
            *out.op_counts.entry(op.name()).or_insert(0) += 1;
            if journal.enabled() && out.transitions % 4096 == 0 {
                // cheap liveness marker; the full path is reconstructed on demand
                journal.line(&format!("T {}", out.transitions));
            }
            let mut st = State { q: q.q_clone(), m: model.clone(), order_suspended: false, expected_leaks: 0, used_drain_or_clear: false, tables_broken: false };
            let res = catch_unwind(AssertUnwindSafe(|| {
                st.exec(&op)?;
                let s = st.post_check(op.name(), op.extra_props(), &universe, true)?;
                st.exec(&Op::SortedCheck)?;
                Ok::<crate::snap::Snap, Viol>(s)
            }));
            let viol = match res {
                Ok(Ok(s)) => {
                    let k2 = s.state_key();
                    if !parent.contains_key(&k2) && (parent.len() as u64) < max_states {
                        parent.insert(k2, (key, Some(op.clone())));
                        frontier.push_back((k2, st.q));
                    }
                    None
                }
                Ok(Err(v)) => Some(v),
                Err(_) => {
                    let msg = take_last_panic().unwrap_or_default();
                    std::mem::forget(st);
                    let mut props = vec!["C04"];
                    for p in op.extra_props() {
                        if ["C07", "C09", "C13", "C15", "C16", "C17", "C06"].contains(p) {
                            props.push(p);
                        }
                    }
                    Some(Viol { monitor: "M-PANIC", op: op.name().to_string(), kind: Q::KIND.name(), detail: format!("panic: {}", msg), props })
                }
            };
            if let Some(v) = viol {
                let mut ops = path_to(&parent, key);
                ops.push(op.clone());
                let step = ops.len();
                let h = History { kind: Q::KIND, hasher: <Q::H as HasherCfg>::NAME.to_string(), ctor: Ctor::New, ops, universe: u };
                sink.report(&Report { viol: v, step, history: h });
            }
        }
    }
    out.exhaustive = (parent.len() as u64) < max_states;
    out
}

fn bfs_one<Q: QueueApi>(u: u32, r: i64, max_states: u64, wide: bool, sink: &mut Sink, journal: &mut Journal) -> BfsOut {
    bfs::<Q>(u, r, max_states, wide, sink, journal)
}

/// mode bfs: configs=U:R,U:R,...  kinds=...; configs are dealt to shards round-robin
pub fn mode_bfs(a: &Args) -> i32 {
    let shard = a.u("shard", 0) as usize;
    let nshards = a.u("nshards", 1) as usize;
    let max_states = a.u("max_states", 400_000);
    let wide = a.u("wide", 0) == 1;
    let kinds = crate::cli::kinds_of(a);
    let cfgs: Vec<(u32, i64)> = a
        .list("configs", "3:3")
        .iter()
        .map(|c| {
            let (u, r) = c.split_once(':').expect("U:R");
            (u.parse().unwrap(), r.parse().unwrap())
        })
        .collect();
    let mut journal = Journal::open(a);
    let mut sink = Sink::default();
    let mut evals = 0u64;
    let mut distinct = 0u64;
    let mut per_cfg = Vec::new();
    let mut idx = 0usize;
    for &(u, r) in &cfgs {
        for &kind in &kinds {
            let mine = idx % nshards == shard;
            idx += 1;
            if !mine {
                continue;
            }
            journal.line(&format!("EP {}", serde_json::json!({"mode":"bfs","kind":kind.name(),"u":u,"r":r})));
            let o = crate::dispatch!(kind, "fixed", bfs_one, u, r, max_states, wide, &mut sink, &mut journal);
            journal.line("EPDONE");
            evals += o.transitions;
            distinct += o.transitions; // every (state, op) pair is distinct by construction
            per_cfg.push(serde_json::json!({
                "kind": kind.name(), "ids": u, "priorities": r, "states": o.states, "transitions": o.transitions,
                "exhaustive": o.exhaustive, "max_size": o.max_size, "op_counts": o.op_counts,
            }));
        }
    }
    let all_exh = per_cfg.iter().all(|c| c["exhaustive"].as_bool().unwrap_or(false));
    sink.finish_counts(
        "bfs",
        evals,
        distinct,
        serde_json::json!({
            "bfs_configs": per_cfg,
            "bfs_states": per_cfg.iter().map(|c| c["states"].as_u64().unwrap_or(0)).sum::<u64>(),
            "bfs_transitions": evals,
            "bfs_all_exhaustive": all_exh,
            "samples": [serde_json::json!({"bfs": "every operation of the small alphabet from every reachable concrete state", "configs": a.s("configs", "3:3")})],
        }),
    );
    0
}
