//! Worker process: runs one shard of a workload under the monitors and prints JSON lines.
//!   {"t":"viol", ...}   one per distinct signature (first witness, replayable)
//!   {"t":"stats", ...}  once at the end
fn main() {
    pqverif::worker_main();
}
