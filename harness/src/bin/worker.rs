//! Worker process: runs one shard of a workload under the monitors and prints JSON lines.
//!   {"t":"viol", ...}   one per distinct signature (first witness, replayable history)
//!   {"t":"stats", ...}  once at the end
use pqverif::types::*;
use pqverif::*;
use std::collections::BTreeMap;
use std::io::Write;

fn main() {
    let args: Vec<String> = std::env::args().skip(1).collect();
    if args.is_empty() {
        eprintln!("usage: worker <mode> key=value ...");
        std::process::exit(2);
    }
    let mode = args[0].clone();
    let mut kv: BTreeMap<String, String> = BTreeMap::new();
    for a in &args[1..] {
        if let Some((k, v)) = a.split_once('=') {
            kv.insert(k.to_string(), v.to_string());
        }
    }
    install_panic_hook();
    let a = cli::Args { kv };
    let code = match mode.as_str() {
        "hist" => cli::mode_hist(&a),
        "replay" => cli::mode_replay(&a),
        "bfs" => bfs::mode_bfs(&a),
        "iters" => iters::mode_iters(&a),
        other => {
            eprintln!("unknown mode {}", other);
            2
        }
    };
    std::io::stdout().flush().ok();
    std::process::exit(code);
}
