//! Same worker, with the controllable allocator installed (allocation-failure injection, and a
//! guard against absurd single allocations).
#[global_allocator]
static A: pqverif::alloc_ctl::CtlAlloc = pqverif::alloc_ctl::CtlAlloc;

fn main() {
    pqverif::alloc_ctl::INSTALLED.store(true, std::sync::atomic::Ordering::SeqCst);
    pqverif::worker_main();
}
