//! C07: bulk construction, extend and append over hint-lying-but-legal iterators.
//! Every case is an explicit history (receiver recipe, then one bulk operation, then an
//! observation) executed under the per-step monitors; the same input is pushed through every
//! `size_hint` shape and the resulting contents compared (differential oracle).

use crate::api::*;
use crate::cli::{Args, Journal, Sink};
use crate::hist::*;
use crate::iters::{recipe, Recipe};
use crate::ops::*;
use crate::rng::Rng;
use crate::types::*;

fn recipe_ops(r: &Recipe) -> Vec<Op> {
    let mut v = Vec::new();
    for &(id, ord) in &r.pushes {
        v.push(Op::Push { id, ord });
    }
    for &id in &r.removes {
        v.push(Op::Remove { id, k: false });
    }
    for &(id, ord) in &r.changes {
        v.push(Op::Change { id, ord, k: true });
    }
    v
}

/// mirror of the crate's strategy choice, used ONLY to account coverage of both strategies
fn predicted_rebuild(len1: usize, hint: (usize, Option<usize>)) -> bool {
    let len2 = match hint {
        (_, Some(max)) => max,
        (min, None) if min != 0 => min,
        _ => return false,
    };
    if len1 <= 1 {
        return false;
    }
    let lg = (usize::BITS - len1.leading_zeros() - 1) as usize;
    match (len1.checked_add(len2).and_then(|x| x.checked_mul(2)), len2.checked_mul(lg)) {
        (Some(a), Some(b)) => a < b,
        _ => false,
    }
}

fn run_one<Q: QueueApi>(h: &History, stats: &mut Stats) -> (Vec<Report>, Vec<Ret>) {
    run_explicit::<Q>(h, 0, 0, stats, None)
}

#[derive(Default)]
struct Cov {
    cases: u64,
    histories: u64,
    pred_rebuild: u64,
    pred_push: u64,
    hints: std::collections::BTreeMap<String, u64>,
    forms: std::collections::BTreeMap<&'static str, u64>,
    dup_inputs: u64,
    clash_inputs: u64,
    distinct: std::collections::HashSet<u64>,
    differential_compares: u64,
}

fn hash_case(x: &impl serde::Serialize) -> u64 {
    let s = serde_json::to_string(x).unwrap();
    let mut h = 0xcbf29ce484222325u64;
    for b in s.bytes() {
        h = (h ^ b as u64).wrapping_mul(0x100000001b3);
    }
    h
}

/// mode bulk:  cases=N  huge=0|1 (include hints with huge upper bounds: only in worker_alloc)
pub fn mode_bulk(a: &Args) -> i32 {
    let seed = a.u("seed", 1);
    let shard = a.u("shard", 0);
    let ncases = a.u("cases", 200);
    let huge = a.u("huge", 0) == 1;
    let start = a.u("start", 0);
    let only = a.kv.get("only").map(|v| v.parse::<u64>().unwrap());
    let max_in = a.u("max_in", 500) as usize;
    let kinds = crate::cli::kinds_of(a);
    let hasher = a.s("hasher", "fixed");
    if huge && !crate::alloc_ctl::installed() {
        eprintln!("bulk huge=1 must run in worker_alloc (guarded allocator)");
        return 2;
    }
    let mut journal = Journal::open(a);
    let mut sink = Sink::default();
    let mut stats = Stats::default();
    let mut cov = Cov::default();
    let mut samples: Vec<serde_json::Value> = Vec::new();
    let sizes = [0usize, 1, 2, 3, 4, 7, 8, 9, 15, 16, 17, 31, 32, 33, 40, 64, 100, 200];
    let in_sizes = [0usize, 1, 2, 3, 5, 9, 16, 23, 40, 100, 300, 500];
    for idx in start..ncases {
        if let Some(o) = only {
            if idx != o {
                continue;
            }
        }
        let mut rng = Rng::derive(seed, 4000 + shard, idx);
        let kind = kinds[(idx as usize) % kinds.len()];
        let n = *rng.pick(&sizes);
        let nprio = *rng.pick(&[1i64, 3, 10, 100_000]);
        let rec = recipe(&mut rng, n, nprio);
        let m = (*rng.pick(&in_sizes)).min(max_in);
        // ids: overlap with the receiver (0..n) and duplication inside the input, both tunable
        let span = match rng.below(4) {
            0 => (n + m).max(1),      // moderate overlap
            1 => (m / 2).max(1),      // heavy duplication inside the input
            2 => (n / 2 + 1).max(1),  // almost everything clashes with the receiver
            _ => n + 4 * m + 1,       // mostly new
        } as u32;
        let base = if rng.chance(1, 4) { n as u32 + 10 } else { 0 };
        let pairs: Vec<(u32, i64)> = (0..m).map(|_| (base + rng.below(span as usize) as u32, rng.range(0, nprio - 1))).collect();
        let has_dup = {
            let mut ids: Vec<u32> = pairs.iter().map(|p| p.0).collect();
            ids.sort_unstable();
            let l = ids.len();
            ids.dedup();
            ids.len() != l
        };
        if has_dup {
            cov.dup_inputs += 1;
        }
        if pairs.iter().any(|p| (p.0 as usize) < n + 2) {
            cov.clash_inputs += 1;
        }
        let form = *rng.pick(&["extend", "extend", "extend", "from_iter", "from_vec", "append", "from_other"]);
        *cov.forms.entry(form).or_insert(0) += 1;
        cov.cases += 1;
        let ctor0 = if rng.chance(1, 3) { Ctor::WithCapacity(*rng.pick(&[1usize, 50, 1000])) } else { Ctor::New };
        let mut hints: Vec<Hint> = SAFE_HINTS.to_vec();
        if huge {
            hints.extend_from_slice(&HUGE_HINTS);
        }
        let mut results: Vec<(String, Ret)> = Vec::new();
        let variants: Vec<(String, History)> = match form {
            "extend" => hints
                .iter()
                .map(|h| {
                    let mut ops = recipe_ops(&rec);
                    ops.push(Op::Extend { pairs: pairs.clone(), hint: *h });
                    ops.push(Op::SortedCheck);
                    ops.push(Op::Observe);
                    (format!("{:?}", h), History { kind, hasher: hasher.clone(), ctor: ctor0.clone(), ops, universe: 12 })
                })
                .collect(),
            "from_iter" => hints
                .iter()
                .map(|h| (format!("{:?}", h), History { kind, hasher: hasher.clone(), ctor: Ctor::FromIter(pairs.clone(), *h), ops: vec![Op::SortedCheck, Op::Observe], universe: 12 }))
                .collect(),
            "from_vec" => vec![("-".into(), History { kind, hasher: hasher.clone(), ctor: Ctor::FromVec(pairs.clone()), ops: vec![Op::SortedCheck, Op::Observe], universe: 12 })],
            "from_other" => vec![("-".into(), History { kind, hasher: hasher.clone(), ctor: Ctor::FromOther(pairs.clone()), ops: vec![Op::SortedCheck, Op::Convert, Op::SortedCheck, Op::Observe], universe: 12 })],
            _ => [0usize, 64]
                .iter()
                .map(|cap| {
                    let mut ops = recipe_ops(&rec);
                    ops.push(Op::Append { pairs: pairs.clone(), cap: *cap });
                    ops.push(Op::SortedCheck);
                    ops.push(Op::Observe);
                    (format!("cap{}", cap), History { kind, hasher: hasher.clone(), ctor: ctor0.clone(), ops, universe: 12 })
                })
                .collect(),
        };
        for (label, h) in variants {
            cov.histories += 1;
            if form == "extend" || form == "from_iter" {
                *cov.hints.entry(label.clone()).or_insert(0) += 1;
                let hint: Hint = hints.iter().copied().find(|x| format!("{:?}", x) == label).unwrap();
                let len1 = if form == "extend" { n } else { 0 };
                if form == "extend" {
                    if predicted_rebuild(len1, hint.of(pairs.len())) {
                        cov.pred_rebuild += 1;
                    } else {
                        cov.pred_push += 1;
                    }
                }
            }
            if cov.distinct.len() < 2_000_000 && !pairs.is_empty() {
                cov.distinct.insert(hash_case(&h));
            }
            let props = ["C07", "C04"];
            journal.line(&format!("EP {}", serde_json::json!({"mode":"bulk","index":idx,"kind":kind.name(),"hasher":hasher})));
            if journal.enabled() {
                journal.line(&format!("CASE {}", serde_json::json!({"mode":"hist","what":format!("{}/{}", form, label),"props":props,"history":h})));
            }
            let (reports, trace) = crate::dispatch!(kind, hasher.as_str(), run_one, &h, &mut stats);
            journal.line("EPDONE");
            for r in &reports {
                sink.report(r);
            }
            if reports.is_empty() {
                if let Some(last) = trace.last() {
                    results.push((label.clone(), last.clone()));
                }
            }
            if samples.len() < 3 && pairs.len() >= 3 && pairs.len() <= 8 && n >= 2 && n <= 9 {
                samples.push(serde_json::to_value(&h).unwrap());
            }
        }
        // differential oracle: the outcome depends only on the yielded pairs, never on the hint
        for w in results.windows(2) {
            cov.differential_compares += 1;
            if w[0].1 != w[1].1 {
                let v = Viol {
                    monitor: "M-DIFF",
                    op: form.to_string(),
                    kind: kind.name(),
                    detail: format!("same input, different outcome under {} and {}: {:?} vs {:?}", w[0].0, w[1].0, w[0].1, w[1].1),
                    props: vec!["C07"],
                };
                sink.viol(&v.props, &v.sig(), &v.detail, serde_json::json!({"mode":"bulk","kind":kind,"receiver":rec,"pairs":pairs,"form":form}));
            }
        }
    }
    let mut st = stats.to_json();
    st["bulk_cases"] = serde_json::json!(cov.cases);
    st["bulk_histories"] = serde_json::json!(cov.histories);
    st["predicted_rebuild_strategy"] = serde_json::json!(cov.pred_rebuild);
    st["predicted_push_strategy"] = serde_json::json!(cov.pred_push);
    st["hint_shapes"] = serde_json::json!(cov.hints);
    st["forms"] = serde_json::json!(cov.forms);
    st["inputs_with_internal_duplicates"] = serde_json::json!(cov.dup_inputs);
    st["inputs_clashing_with_receiver"] = serde_json::json!(cov.clash_inputs);
    st["differential_compares"] = serde_json::json!(cov.differential_compares);
    st["samples"] = serde_json::Value::Array(samples);
    sink.finish_counts("bulk", cov.histories, cov.distinct.len() as u64, st);
    0
}
