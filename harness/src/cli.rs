//! Command-line plumbing shared by the worker modes: arguments, output sink, journal, dispatch.

use crate::api::*;
use crate::gen;
use crate::hist::*;
use crate::rng::Rng;
use std::collections::BTreeMap;
use std::io::Write;

pub struct Args {
    pub kv: BTreeMap<String, String>,
}
impl Args {
    pub fn s(&self, k: &str, d: &str) -> String {
        self.kv.get(k).cloned().unwrap_or_else(|| d.to_string())
    }
    pub fn u(&self, k: &str, d: u64) -> u64 {
        self.kv.get(k).map(|v| v.parse().expect("numeric argument")).unwrap_or(d)
    }
    pub fn list(&self, k: &str, d: &str) -> Vec<String> {
        self.s(k, d).split(',').filter(|x| !x.is_empty()).map(|x| x.to_string()).collect()
    }
}

/// Append-only journal: what the worker is about to do, flushed before it does it, so that an
/// abort (std's unsafe-precondition check, a sanitizer, an allocation failure) leaves a witness.
pub struct Journal {
    f: Option<std::fs::File>,
}
impl Journal {
    pub fn open(a: &Args) -> Journal {
        let p = a.s("journal", "");
        if p.is_empty() {
            return Journal { f: None };
        }
        Journal { f: Some(std::fs::OpenOptions::new().create(true).append(true).open(p).expect("open journal")) }
    }
    pub fn line(&mut self, s: &str) {
        if let Some(f) = self.f.as_mut() {
            let _ = f.write_all(s.as_bytes());
            let _ = f.write_all(b"\n");
            let _ = f.flush();
        }
    }
    pub fn enabled(&self) -> bool {
        self.f.is_some()
    }
}

/// Deduplicating violation sink.
#[derive(Default)]
pub struct Sink {
    pub seen: BTreeMap<String, u64>,
}
impl Sink {
    pub fn viol(&mut self, props: &[&str], sig: &str, detail: &str, replay: serde_json::Value) {
        let n = self.seen.entry(sig.to_string()).or_insert(0);
        *n += 1;
        if *n == 1 {
            let line = serde_json::json!({"t": "viol", "props": props, "sig": sig, "detail": detail, "replay": replay});
            println!("{}", line);
            std::io::stdout().flush().ok();
        }
    }
    pub fn report(&mut self, r: &Report) {
        let sig = r.viol.sig();
        let replay = serde_json::json!({"mode": "hist", "step": r.step, "monitor": r.viol.monitor, "op": r.viol.op, "history": r.history});
        self.viol(&r.viol.props, &sig, &r.viol.detail, replay);
    }
    /// `evals`: executions under monitors; `distinct`: distinct non-trivial cases (measured)
    pub fn finish_counts(&self, mode: &str, evals: u64, distinct: u64, stats: serde_json::Value) {
        let line = serde_json::json!({"t": "stats", "mode": mode, "evals": evals, "distinct": distinct, "sigs": self.seen, "stats": stats});
        println!("{}", line);
        std::io::stdout().flush().ok();
    }
    pub fn finish(&self, mode: &str, stats: serde_json::Value) {
        let line = serde_json::json!({"t": "stats", "mode": mode, "sigs": self.seen, "stats": stats});
        println!("{}", line);
        std::io::stdout().flush().ok();
    }
}

/// Call a generic function with the queue type selected by (kind, hasher name).
#[macro_export]
macro_rules! dispatch {
    ($kind:expr, $hasher:expr, $f:ident, $($arg:expr),*) => {
        match ($kind, $hasher) {
            ($crate::api::Kind::Pq, "std") => $f::<$crate::api::PqOf<$crate::types::StdRandom>>($($arg),*),
            ($crate::api::Kind::Dpq, "std") => $f::<$crate::api::DpqOf<$crate::types::StdRandom>>($($arg),*),
            ($crate::api::Kind::Pq, "fixed") => $f::<$crate::api::PqOf<$crate::types::FixedState>>($($arg),*),
            ($crate::api::Kind::Dpq, "fixed") => $f::<$crate::api::DpqOf<$crate::types::FixedState>>($($arg),*),
            ($crate::api::Kind::Pq, "xx") => $f::<$crate::api::PqOf<$crate::types::XxState>>($($arg),*),
            ($crate::api::Kind::Dpq, "xx") => $f::<$crate::api::DpqOf<$crate::types::XxState>>($($arg),*),
            ($crate::api::Kind::Pq, "brown") => $f::<$crate::api::PqOf<$crate::types::BrownState>>($($arg),*),
            ($crate::api::Kind::Dpq, "brown") => $f::<$crate::api::DpqOf<$crate::types::BrownState>>($($arg),*),
            ($crate::api::Kind::Pq, "const") => $f::<$crate::api::PqOf<$crate::types::ConstState>>($($arg),*),
            ($crate::api::Kind::Dpq, "const") => $f::<$crate::api::DpqOf<$crate::types::ConstState>>($($arg),*),
            ($crate::api::Kind::Pq, "low2") => $f::<$crate::api::PqOf<$crate::types::Low2State>>($($arg),*),
            ($crate::api::Kind::Dpq, "low2") => $f::<$crate::api::DpqOf<$crate::types::Low2State>>($($arg),*),
            (_, h) => panic!("unknown hasher {}", h),
        }
    };
}

pub fn hasher_key(name: &str) -> &'static str {
    match name {
        "RandomState" | "std" => "std",
        "BuildHasherDefault<DefaultHasher>" | "fixed" => "fixed",
        "BuildHasherDefault<XxHash64>" | "xx" => "xx",
        "hashbrown::DefaultHashBuilder" | "brown" => "brown",
        "ConstState(all collide)" | "const" => "const",
        "Low2State(4 buckets)" | "low2" => "low2",
        other => panic!("unknown hasher {}", other),
    }
}

pub fn kinds_of(a: &Args) -> Vec<Kind> {
    match a.s("kinds", "both").as_str() {
        "pq" => vec![Kind::Pq],
        "dpq" => vec![Kind::Dpq],
        _ => vec![Kind::Pq, Kind::Dpq],
    }
}

fn hist_episode<Q: QueueApi>(rng: &mut Rng, prof: &gen::Profile, stats: &mut Stats, journal: Option<&mut dyn FnMut(&str)>) -> Vec<Report> {
    run_generated::<Q>(rng, prof, stats, journal)
}

/// mode hist: generated histories under all per-step monitors.
pub fn mode_hist(a: &Args) -> i32 {
    let seed = a.u("seed", 1);
    let shard = a.u("shard", 0);
    let max_ops = a.u("ops", 200_000);
    let max_eps = a.u("episodes", u64::MAX);
    let only = a.kv.get("only").map(|v| v.parse::<u64>().unwrap());
    let trace = a.u("trace", 0) == 1;
    let kinds = kinds_of(a);
    let hashers = a.list("hashers", "std,fixed");
    let profiles = a.list("profiles", "churn,growth");
    let mut journal = Journal::open(a);
    let mut stats = Stats::default();
    let mut sink = Sink::default();
    if a.u("noprobe", 0) == 1 {
        crate::hist::NO_PROBE.store(true, std::sync::atomic::Ordering::Relaxed);
    }
    let mut i = a.u("start", 0);
    while stats.ops < max_ops && i < max_eps {
        let idx = i;
        i += 1;
        if let Some(o) = only {
            if idx != o {
                if idx > o {
                    break;
                }
                continue;
            }
        }
        let mut rng = Rng::derive(seed, shard, idx);
        let kind = kinds[(idx as usize) % kinds.len()];
        let hasher = hashers[((idx as usize) / kinds.len()) % hashers.len()].clone();
        let pname = profiles[rng.below(profiles.len())].clone();
        let mut prof = gen::profile(&pname, &mut rng);
        if a.u("noleak", 0) == 1 {
            prof.allow_leak = false;
        }
        // slow interpreters (Miri, memcheck): keep every episode small
        if let Some(u) = a.kv.get("cap_universe") {
            let u: u32 = u.parse().unwrap();
            prof.universe = prof.universe.min(u);
            prof.target = prof.target.min(u as usize);
            prof.bulk_max = prof.bulk_max.min(u as usize + 2);
        }
        if let Some(st) = a.kv.get("cap_steps") {
            prof.steps = prof.steps.min(st.parse().unwrap());
        }
        journal.line(&format!("EP {}", serde_json::json!({"mode":"hist","seed":seed,"shard":shard,"index":idx,"kind":kind.name(),"hasher":hasher,"profile":pname})));
        let mut jf = |s: &str| journal.line(s);
        let j: Option<&mut dyn FnMut(&str)> = if trace { Some(&mut jf) } else { None };
        let reports = dispatch!(kind, hasher_key(&hasher), hist_episode, &mut rng, &prof, &mut stats, j);
        for r in &reports {
            sink.report(r);
        }
        journal.line("EPDONE");
    }
    sink.finish_counts("hist", stats.ops, stats.state_op.len() as u64, stats.to_json());
    0
}

fn replay_one<Q: QueueApi>(h: &History, stats: &mut Stats, journal: Option<&mut dyn FnMut(&str)>) -> Vec<Report> {
    run_replay::<Q>(h, stats, journal).0
}

/// mode replay: re-execute recorded witnesses: `file=<path>` or every `*.json` of `dir=<path>`
/// (optionally only names starting with `prefix=` / not starting with `notprefix=`).
pub fn mode_replay(a: &Args) -> i32 {
    let mut files: Vec<String> = Vec::new();
    let dir = a.s("dir", "");
    if !dir.is_empty() {
        let prefixes = a.list("prefix", "");
        let notprefixes = a.list("notprefix", "");
        let mut names: Vec<String> = std::fs::read_dir(&dir).expect("read corpus dir").filter_map(|e| e.ok()).map(|e| e.file_name().to_string_lossy().to_string()).collect();
        names.sort();
        for n in names {
            if n.ends_with(".json") && (prefixes.is_empty() || prefixes.iter().any(|p| n.starts_with(p.as_str()))) && !notprefixes.iter().any(|p| n.starts_with(p.as_str())) {
                files.push(format!("{}/{}", dir, n));
            }
        }
    } else {
        files.push(a.s("file", ""));
    }
    let mut journal = Journal::open(a);
    let mut sink = Sink::default();
    let mut stats = Stats::default();
    let mut evals = 0u64;
    let mut samples = Vec::new();
    for (fi, path) in files.iter().enumerate() {
        let txt = std::fs::read_to_string(path).expect("read replay file");
        let v: serde_json::Value = serde_json::from_str(&txt).expect("replay json");
        let rp = if v.get("replay").is_some() { v["replay"].clone() } else { v.clone() };
        let mode = rp["mode"].as_str().unwrap_or("hist").to_string();
        journal.line(&format!("EP {}", serde_json::json!({"mode":"replay","file":path,"index":fi})));
        evals += 1;
        if samples.len() < 4 {
            samples.push(serde_json::json!({"corpus_file": path}));
        }
        match mode.as_str() {
            "hist" => {
                if rp["history"].is_null() {
                    eprintln!("replay: {} carries no explicit history", path);
                    continue;
                }
                let h: History = serde_json::from_value(rp["history"].clone()).expect("history");
                let mut jf = |s: &str| journal.line(s);
                let j: Option<&mut dyn FnMut(&str)> = Some(&mut jf);
                let reports = dispatch!(h.kind, hasher_key(&h.hasher), replay_one, &h, &mut stats, j);
                for r in &reports {
                    sink.report(r);
                }
            }
            other => {
                crate::replay_other(other, &rp, a, &mut sink, &mut journal);
            }
        }
        journal.line("EPDONE");
    }
    let mut st = stats.to_json();
    st["samples"] = serde_json::Value::Array(samples);
    st["replayed_files"] = serde_json::json!(files.len());
    sink.finish_counts("replay", evals + stats.ops, files.len() as u64, st);
    0
}
