//! C05: comparison / hash / eq counters around every public call (M-COST), on queues of
//! n = 2^4 .. 2^20 elements with ascending, descending, constant and random priorities and with
//! the addressed element chosen by heap position. A second entry point (`costprobe`) runs a fixed
//! number of operations so that the driver can take deterministic instruction counts under
//! cachegrind.

use crate::api::*;
use crate::cli::{Args, Journal, Sink};
use crate::ops::Viol;
use crate::rng::Rng;
use crate::types::*;
use std::collections::BTreeMap;

// Bounds (fixed at implementation time to >= 2x the worst count measured on the unchanged tree;
// see DESIGN.md C05). Single-element operations: cmp <= A*floor(log2(n+1)) + B.
pub const A_LOG: u64 = 8;
pub const B_CONST: u64 = 16;
// Rebuilds: cmp <= C*n + D
pub const C_LIN: u64 = 8;
pub const D_CONST: u64 = 32;
pub const HASH_MAX: u64 = 6;
pub const EQ_MAX: u64 = 12;

fn lg(n: usize) -> u64 {
    (usize::BITS - 1 - (n + 1).leading_zeros()) as u64
}

#[derive(Default)]
struct Meas {
    /// (op, n) -> (max cmp, max hash, max eq, samples)
    m: BTreeMap<(String, usize), (u64, u64, u64, u64)>,
    structural: Vec<(usize, String)>,
    structural_checks: u64,
}
impl Meas {
    fn rec(&mut self, op: &str, n: usize, d: [u64; NCB]) {
        let e = self.m.entry((op.to_string(), n)).or_insert((0, 0, 0, 0));
        e.0 = e.0.max(d[Cb::Cmp as usize]);
        e.1 = e.1.max(d[Cb::Hash as usize]);
        e.2 = e.2.max(d[Cb::Eq as usize]);
        e.3 += 1;
    }
}

fn delta(f: impl FnOnce()) -> [u64; NCB] {
    let b = counts();
    f();
    let a = counts();
    let mut d = [0u64; NCB];
    for i in 0..NCB {
        d[i] = a[i] - b[i];
    }
    d
}

fn pattern_ord(pat: &str, i: usize, n: usize, rng: &mut Rng) -> i64 {
    match pat {
        "asc" => i as i64,
        "desc" => (n - i) as i64,
        "const" => 7,
        "fewties" => (i % 5) as i64,
        _ => rng.range(-1_000_000, 1_000_000),
    }
}

fn build_q<Q: QueueApi>(n: usize, pat: &str, rng: &mut Rng, how: usize) -> Q {
    let v: Vec<(Item, Prio)> = (0..n).map(|i| (Item::new(i as u32), Prio::new(pattern_ord(pat, i, n, rng)))).collect();
    match how % 3 {
        0 => Q::q_from_vec(v),
        1 => {
            let mut q = Q::q_new();
            for (i, p) in v {
                q.push(i, p);
            }
            q
        }
        _ => Q::q_from_iter(v),
    }
}

fn positions(n: usize, rng: &mut Rng, reps: usize) -> Vec<usize> {
    let mut v = vec![0, n - 1, (n - 1).min(1), (n - 1).min(2), n / 2, n / 4, (n - 1).min(5)];
    // one position on every level
    let mut p = 0usize;
    while p < n {
        v.push(p);
        p = 2 * p + 1 + (rng.below(2));
    }
    for _ in 0..reps {
        v.push(rng.below(n));
    }
    v
}

fn measure_single<Q: QueueApi>(n: usize, pat: &str, seed: u64, reps: usize, meas: &mut Meas) {
    reset_episode();
    let mut rng = Rng::derive(seed, n as u64, 17);
    let how = rng.below(3);
    let mut q: Q = build_q::<Q>(n, pat, &mut rng, how);
    let big = 10_000_000i64;
    let mut fresh_id = n as u32 + 10;
    // lookups and peeks
    let probe = Item::new((n / 2) as u32);
    meas.rec("len", n, delta(|| { let _ = q.len(); }));
    meas.rec("is_empty", n, delta(|| { let _ = q.is_empty(); }));
    meas.rec("capacity", n, delta(|| { let _ = q.capacity(); }));
    meas.rec("get", n, delta(|| { let _ = q.get(&probe); }));
    meas.rec("get_priority", n, delta(|| { let _ = q.get_priority_k(&Key((n / 3) as u32)); }));
    meas.rec("get_mut", n, delta(|| { let _ = q.get_mut(&probe); }));
    // operations naming an ABSENT item must not cost more than a failed hash lookup
    {
        let absent = Item::new(n as u32 + 77);
        let ak = Key(n as u32 + 78);
        meas.rec("get(absent)", n, delta(|| { let _ = q.get(&absent); }));
        meas.rec("get_priority(absent)", n, delta(|| { let _ = q.get_priority_k(&ak); }));
        meas.rec("get_mut(absent)", n, delta(|| { let _ = q.get_mut_k(&ak); }));
        meas.rec("change_priority(absent)", n, delta(|| { let _ = q.change_priority_k(&ak, Prio::new(1)); }));
        meas.rec("change_priority(absent)", n, delta(|| { let _ = q.change_priority(&absent, Prio::new(1)); }));
        meas.rec("change_priority_by(absent)", n, delta(|| { let _ = q.change_priority_by_k(&ak, |p| p.ord = 2); }));
        meas.rec("remove(absent)", n, delta(|| { let _ = q.remove_k(&ak); }));
        meas.rec("remove(absent)", n, delta(|| { let _ = q.remove(&absent); }));
    }
    for &e in Q::ends() {
        let nm = match (Q::KIND, e) {
            (Kind::Pq, _) => "peek",
            (_, End::Min) => "peek_min",
            (_, End::Max) => "peek_max",
        };
        meas.rec(nm, n, delta(|| { let _ = q.peek(e); }));
        meas.rec(&format!("{}_mut", nm), n, delta(|| { let _ = q.peek_mut(e); }));
    }
    // deterministic worst cases: every update operation, on the element at the root, at the last
    // leaf and in the middle, sent above the maximum and below the minimum
    let mut bump = 0i64;
    for pos in [0usize, n - 1, n / 2, (n - 1).min(1), (n - 1).min(2), n - 1, 0] {
        for sign in [1i64, -1] {
            for opi in 0..5 {
                let s_id = match q.snapshot().id_at_pos(pos) {
                    Some(i) => i,
                    None => continue,
                };
                bump += 1;
                let t = sign * (big + bump);
                let key = Key(s_id);
                let it = Item::new(s_id);
                match opi {
                    0 => meas.rec("change_priority", n, delta(|| { let _ = q.change_priority_k(&key, Prio::new(t)); })),
                    1 => meas.rec("change_priority_by", n, delta(|| { let _ = q.change_priority_by(&it, |p| p.ord = t); })),
                    2 => meas.rec("push(present)", n, delta(|| { let _ = q.push(Item::new(s_id), Prio::new(t)); })),
                    3 => meas.rec("push_increase", n, delta(|| { let _ = q.push_increase(Item::new(s_id), Prio::new(t.abs())); })),
                    _ => meas.rec("push_decrease", n, delta(|| { let _ = q.push_decrease(Item::new(s_id), Prio::new(-t.abs())); })),
                }
            }
            // removal at that position and re-insertion at the far end
            if let Some(s_id) = q.snapshot().id_at_pos(pos) {
                let key = Key(s_id);
                let mut got = None;
                meas.rec("remove", n, delta(|| { got = q.remove_k(&key); }));
                if let Some((i, _)) = got {
                    bump += 1;
                    meas.rec("push(new)", n, delta(|| { let _ = q.push(i, Prio::new(sign * (big + bump))); }));
                }
            }
            for &e in Q::ends() {
                let nm = match (Q::KIND, e) {
                    (Kind::Pq, _) => "",
                    (_, End::Min) => "_min",
                    (_, End::Max) => "_max",
                };
                bump += 1;
                let o = -sign * (big + bump) * if e == End::Max { 1 } else { -1 };
                meas.rec(&format!("pop{}_if(false)", nm), n, delta(|| { let _ = q.pop_if(e, |_, p| { p.ord = o; false }); }));
                let mut got = None;
                meas.rec(&format!("pop{}", nm), n, delta(|| { got = q.pop(e); }));
                if let Some((i, p)) = got {
                    meas.rec("push(new)", n, delta(|| { let _ = q.push(i, p); }));
                }
                let mut got = None;
                meas.rec(&format!("pop{}_if(true)", nm), n, delta(|| { got = q.pop_if(e, |_, _| true); }));
                if let Some((i, p)) = got {
                    meas.rec("push(new)", n, delta(|| { let _ = q.push(i, p); }));
                }
            }
        }
    }
    for pos in positions(n, &mut rng, reps) {
        let s_id = {
            // element at heap position `pos`
            let s = q.snapshot();
            match s.id_at_pos(pos) {
                Some(i) => i,
                None => continue,
            }
        };
        let targets = [big, -big, 0, rng.range(-1_000_000, 1_000_000), 7];
        let t = targets[rng.below(targets.len())];
        let key = Key(s_id);
        let it = Item::new(s_id);
        match rng.below(6) {
            0 => meas.rec("change_priority", n, delta(|| { let _ = q.change_priority_k(&key, Prio::new(t)); })),
            1 => meas.rec("change_priority_by", n, delta(|| { let _ = q.change_priority_by(&it, |p| p.ord = t); })),
            2 => meas.rec("push(present)", n, delta(|| { let _ = q.push(Item::new(s_id), Prio::new(t)); })),
            3 => meas.rec("push_increase", n, delta(|| { let _ = q.push_increase(Item::new(s_id), Prio::new(t)); })),
            4 => meas.rec("push_decrease", n, delta(|| { let _ = q.push_decrease(Item::new(s_id), Prio::new(t)); })),
            _ => {
                let mut got = None;
                meas.rec("remove", n, delta(|| { got = q.remove_k(&key); }));
                if let Some((i, p)) = got {
                    meas.rec("push(new)", n, delta(|| { let _ = q.push(i, p); }));
                }
            }
        }
        // extraction ends and conditional pops, then restore the size
        let e = *rng.pick(Q::ends());
        let popname = |base: &str| match (Q::KIND, e) {
            (Kind::Pq, _) => base.replace("{}", ""),
            (_, End::Min) => base.replace("{}", "_min"),
            (_, End::Max) => base.replace("{}", "_max"),
        };
        match rng.below(4) {
            0 => {
                let mut got = None;
                meas.rec(&popname("pop{}"), n, delta(|| { got = q.pop(e); }));
                if let Some((i, _)) = got {
                    let o = *rng.pick(&[big + 1, -big - 1, 3]);
                    meas.rec("push(new)", n, delta(|| { let _ = q.push(i, Prio::new(o)); }));
                }
            }
            1 => {
                let o = *rng.pick(&[big + 2, -big - 2, 5]);
                meas.rec(&format!("{}(false)", popname("pop{}_if")), n, delta(|| { let _ = q.pop_if(e, |_, p| { p.ord = o; false }); }));
            }
            2 => {
                let mut got = None;
                meas.rec(&format!("{}(true)", popname("pop{}_if")), n, delta(|| { got = q.pop_if(e, |_, _| true); }));
                if let Some((i, p)) = got {
                    meas.rec("push(new)", n, delta(|| { let _ = q.push(i, p); }));
                }
            }
            _ => {
                fresh_id += 1;
                let o = *rng.pick(&[big + 3, -big - 3, 1]);
                meas.rec("push(new)", n, delta(|| { let _ = q.push(Item::new(fresh_id), Prio::new(o)); }));
                let k = Key(fresh_id);
                meas.rec("remove", n, delta(|| { let _ = q.remove_k(&k); }));
            }
        }
    }
    // the large queues of this mode are also a correctness workload: after all the updates the
    // tables must be consistent, the heap ordered and a full drain monotone
    let snap = q.snapshot();
    let ok = snap.tables().and_then(|_| match Q::KIND {
        Kind::Pq => snap.order_max(),
        Kind::Dpq => snap.order_minmax(),
    });
    if let Err(d) = ok {
        meas.structural.push((n, d));
    } else {
        let len = q.len();
        let v = q.into_sorted_pairs(true);
        if v.len() != len || v.windows(2).any(|w| w[0].1.ord < w[1].1.ord) {
            meas.structural.push((n, "descending drain of the measured queue is not monotone / complete".to_string()));
        }
        meas.structural_checks += 1;
        return;
    }
    drop(q);
}

fn measure_bulk<Q: QueueApi>(n: usize, pat: &str, seed: u64, meas: &mut Meas) {
    reset_episode();
    let mut rng = Rng::derive(seed, n as u64, 23);
    let mk = |rng: &mut Rng, base: usize, n: usize| -> Vec<(Item, Prio)> { (0..n).map(|i| (Item::new((base + i) as u32), Prio::new(pattern_ord(pat, i, n, rng)))).collect() };
    let v = mk(&mut rng, 0, n);
    let mut q: Option<Q> = None;
    meas.rec("From<Vec>", n, delta(|| q = Some(Q::q_from_vec(v))));
    let mut q = q.unwrap();
    meas.rec("retain_mut(rewrite all)", n, delta(|| q.retain_mut(|i, p| { p.ord = -(p.ord) + (i.id() as i64 % 3); true })));
    meas.rec("iter_mut+drop", n, delta(|| { for (i, p) in q.iter_mut() { p.ord = (i.id() as i64 * 7919) % 1000; } }));
    meas.rec("retain(half)", n, delta(|| q.retain(|i, _| i.id() % 2 == 0)));
    let mut other: Q = build_q::<Q>(n / 2, pat, &mut rng, 0);
    // distinct ids for the other queue half of the time
    if rng.chance(1, 2) {
        other = Q::q_from_vec(mk(&mut rng, 2 * n + 5, n / 2));
    }
    let total = q.len() + other.len();
    meas.rec("append", total.max(1), delta(|| q.append(&mut other)));
    let len = q.len();
    let mut o2 = None;
    meas.rec("convert", len.max(1), delta(|| o2 = Some(<Q::Other as QueueApi>::q_from_other(std::mem::replace(&mut q, Q::q_new())))));
    drop(o2);
    let v2 = mk(&mut rng, 0, n);
    let mut q2 = None;
    meas.rec("FromIterator", n, delta(|| q2 = Some(Q::q_from_iter(v2))));
    // extend(k) onto n: both strategies
    let mut q2: Q = q2.unwrap();
    for k in [3usize, n / 4 + 1, 2 * n] {
        let add = mk(&mut rng, 3 * n + 10, k);
        let nn = q2.len() + k;
        meas.rec(&format!("extend(k={})", if k == 3 { "3" } else if k == 2 * n { "2n" } else { "n/4" }), nn, delta(|| q2.extend(HintIter::new(add, Hint::Exact))));
    }
}

fn single_name(op: &str) -> bool {
    !(op.starts_with("From") || op.starts_with("retain") || op.starts_with("iter_mut") || op == "append" || op == "convert" || op.starts_with("extend"))
}

fn msingle<Q: QueueApi>(n: usize, pat: &str, seed: u64, reps: usize, meas: &mut Meas) {
    measure_single::<Q>(n, pat, seed, reps, meas)
}
fn mbulk<Q: QueueApi>(n: usize, pat: &str, seed: u64, meas: &mut Meas) {
    measure_bulk::<Q>(n, pat, seed, meas)
}

/// mode cost: exps=4,8,12,16 reps=40 patterns=asc,desc,const,random
pub fn mode_cost(a: &Args) -> i32 {
    let seed = a.u("seed", 1);
    let shard = a.u("shard", 0) as usize;
    let nshards = a.u("nshards", 1) as usize;
    let reps = a.u("reps", 40) as usize;
    let exps: Vec<u32> = a.list("exps", "4,8,12,16").iter().map(|x| x.parse().unwrap()).collect();
    let pats = a.list("patterns", "asc,desc,const,random,fewties");
    let kinds = crate::cli::kinds_of(a);
    let hasher = a.s("hasher", "fixed");
    let mut journal = Journal::open(a);
    let mut sink = Sink::default();
    let mut evals = 0u64;
    let mut per_kind: BTreeMap<&'static str, Meas> = BTreeMap::new();
    let mut idx = 0usize;
    for &kind in &kinds {
        for &e in &exps {
            for pat in &pats {
                idx += 1;
                if idx % nshards != shard {
                    continue;
                }
                let n = 1usize << e;
                journal.line(&format!("EP {}", serde_json::json!({"mode":"cost","kind":kind.name(),"n":n,"pattern":pat})));
                let meas = per_kind.entry(kind.name()).or_default();
                crate::dispatch!(kind, hasher.as_str(), msingle, n, pat, seed, reps, meas);
                if e <= 18 || pat == "asc" || pat == "random" {
                    crate::dispatch!(kind, hasher.as_str(), mbulk, n, pat, seed, meas);
                }
                journal.line("EPDONE");
            }
        }
    }
    let mut table = Vec::new();
    let mut distinct = 0u64;
    for (kname, meas) in &per_kind {
        for ((op, n), (cmp, hash, eq, cnt)) in &meas.m {
            evals += cnt;
            distinct += 1;
            let (bound, what) = if single_name(op) {
                let zero = ["len", "is_empty", "capacity", "get", "get_priority", "get_mut", "peek", "peek_min", "peek_mut", "peek_min_mut"].contains(&op.as_str()) || op.ends_with("(absent)");
                let one = ["peek_max", "peek_max_mut"].contains(&op.as_str());
                if zero {
                    (0, "0")
                } else if one {
                    (1, "1")
                } else {
                    (A_LOG * lg(*n) + B_CONST, "A*floor(log2(n+1))+B")
                }
            } else if op.starts_with("extend") {
                // k pushes or one rebuild, whichever the implementation chooses
                (C_LIN * (*n as u64) + D_CONST, "C*(n+k)+D")
            } else {
                (C_LIN * (*n as u64) + D_CONST, "C*n+D")
            };
            table.push(serde_json::json!({"kind": kname, "op": op, "n": n, "max_cmp": cmp, "bound": bound, "max_hash": hash, "max_eq": eq, "calls": cnt}));
            if *cmp > bound {
                let v = Viol { monitor: "M-COST", op: op.clone(), kind: kname, detail: format!("{} comparisons in one {} call on {} elements; bound {} = {}", cmp, op, n, what, bound), props: vec!["C05"] };
                sink.viol(&v.props, &format!("cost/{}/{}/cmp-bound", kname, op), &v.detail, serde_json::json!({"mode":"cost","kind":kname,"op":op,"n":n}));
            }
            if single_name(op) && !<FixedState as HasherCfg>::DEGENERATE && (*hash > HASH_MAX || *eq > EQ_MAX) {
                let v = Viol { monitor: "M-COST", op: op.clone(), kind: kname, detail: format!("{} Hash / {} Eq calls in one {} call on {} elements (bounds {} / {})", hash, eq, op, n, HASH_MAX, EQ_MAX), props: vec!["C05"] };
                sink.viol(&v.props, &format!("cost/{}/{}/hash-eq-bound", kname, op), &v.detail, serde_json::json!({"mode":"cost","kind":kname,"op":op,"n":n}));
            }
        }
        // scaling criterion, independent of the constants
        let ns: Vec<usize> = meas.m.keys().map(|k| k.1).collect();
        let (lo, hi) = (1usize << 8, 1usize << 16);
        if ns.contains(&lo) && ns.contains(&hi) {
            let ops: std::collections::BTreeSet<String> = meas.m.keys().map(|k| k.0.clone()).collect();
            for op in ops {
                if !single_name(&op) {
                    continue;
                }
                if let (Some(a), Some(b)) = (meas.m.get(&(op.clone(), lo)), meas.m.get(&(op.clone(), hi))) {
                    if a.0 > 0 && (b.0 as f64) > 2.5 * (a.0 as f64) + 4.0 {
                        let v = Viol { monitor: "M-COST", op: op.clone(), kind: kname, detail: format!("max comparisons of {} grew from {} at n=2^8 to {} at n=2^16 (more than 2.5x: not logarithmic)", op, a.0, b.0), props: vec!["C05"] };
                        sink.viol(&v.props, &format!("cost/{}/{}/scaling", kname, op), &v.detail, serde_json::json!({"mode":"cost","kind":kname,"op":op}));
                    }
                }
            }
        }
    }
    let mut structural_checks = 0u64;
    for (kname, meas) in &per_kind {
        structural_checks += meas.structural_checks;
        for (n, d) in &meas.structural {
            let v = Viol { monitor: "M-ORDER", op: "cost-workload".into(), kind: kname, detail: format!("after the measured updates on {} elements: {}", n, d), props: vec![if *kname == "pq" { "C01" } else { "C02" }, "C04"] };
            sink.viol(&v.props, &v.sig(), &v.detail, serde_json::json!({"mode":"cost","kind":kname,"n":n}));
        }
    }
    let samples: Vec<serde_json::Value> = table.iter().filter(|r| r["n"].as_u64().unwrap_or(0) >= 256).take(6).cloned().collect();
    sink.finish_counts("cost", evals, distinct, serde_json::json!({"cost_table": table, "calls_measured": evals, "structural_checks_on_large_queues": structural_checks, "samples": samples}));
    0
}

fn probe<Q: QueueApi>(n: usize, op: &str, ops: usize, seed: u64) {
    let mut rng = Rng::derive(seed, n as u64, 99);
    let mut q: Q = build_q::<Q>(n, "random", &mut rng, 0);
    for j in 0..ops {
        let id = rng.below(n) as u32;
        match op {
            "change" => {
                let _ = q.change_priority_k(&Key(id), Prio::new(rng.range(-1_000_000, 1_000_000)));
            }
            "removepush" => {
                if let Some((i, p)) = q.remove_k(&Key(id)) {
                    q.push(i, p);
                }
            }
            "poppush" => {
                let e = Q::ends()[j % Q::ends().len()];
                if let Some((i, _)) = q.pop(e) {
                    q.push(i, Prio::new(rng.range(-1_000_000, 1_000_000)));
                }
            }
            "absent" => {
                let k = Key(n as u32 + 5 + (j as u32 % 7));
                let _ = q.change_priority_k(&k, Prio::new(1));
                let _ = q.remove_k(&k);
                let _ = q.change_priority_by_k(&k, |p| p.ord = 3);
            }
            "peeks" => {
                for e in Q::ends() {
                    let _ = q.peek(*e);
                }
                let _ = q.get_priority_k(&Key(id));
                let _ = q.len();
            }
            _ => {}
        }
    }
    std::mem::forget(q); // keep teardown out of the count
}

/// mode costprobe: n=..., op=change|removepush|poppush|peeks|none, ops=K; run under cachegrind
pub fn mode_costprobe(a: &Args) -> i32 {
    let n = a.u("n", 256) as usize;
    let ops = a.u("ops", 2000) as usize;
    let op = a.s("op", "none");
    let kind = crate::cli::kinds_of(a)[0];
    crate::dispatch!(kind, "fixed", probe, n, &op, ops, a.u("seed", 1));
    println!("{}", serde_json::json!({"t":"stats","mode":"costprobe","evals":ops,"distinct":0,"sigs":{},"stats":{"n":n,"op":op,"ops":ops,"kind":kind.name()}}));
    0
}
