//! C10: crash-point enumeration. For a state S and an operation o, o is first run fault-free on a
//! copy to count its user callbacks per kind; then for every kind and every index k the state is
//! rebuilt, the fuse armed at k, o run under catch_unwind and a continuation executed. Alarms need
//! a concrete event: an abort / sanitizer / Miri report during the continuation (M-UB, seen by
//! the driver through the journal) or a live-object ledger imbalance (double drop, leak).

use crate::api::*;
use crate::cli::{Args, Journal, Sink};
use crate::gen;
use crate::iters::{build, recipe, Recipe};
use crate::ops::*;
use crate::rng::Rng;
use crate::types::*;
use serde::{Deserialize, Serialize};
use std::panic::{catch_unwind, AssertUnwindSafe};

#[derive(Clone, Debug, Serialize, Deserialize)]
pub struct FaultCase {
    pub kind: Kind,
    pub hasher: String,
    pub recipe: Recipe,
    pub op: Op,
    pub cb: Cb,
    pub k: u64,
    /// continuation seed
    pub cont_seed: u64,
    /// second fault during the continuation: (callback kind, index)
    pub second: Option<(Cb, u64)>,
}

fn opclass(op: &Op, present: bool) -> String {
    match op {
        Op::Push { .. } => format!("push-{}", if present { "present" } else { "new" }),
        Op::PushInc { .. } | Op::PushDec { .. } => format!("{}-{}", op.name(), if present { "present" } else { "new" }),
        _ => op.name().to_string(),
    }
}

/// The continuation: fault-free (or once more faulty) operations on a queue whose order and
/// length may be unspecified. Results are ignored: only memory safety and the ledger count.
fn continuation<Q: QueueApi>(st: &mut State<Q>, seed: u64, second: Option<(Cb, u64)>, old_ids: &[u32], cn: &mut Cov) {
    let mut rng = Rng::new(seed);
    let mut prng = rng.clone();
    let mut prof = gen::profile("churn", &mut prng);
    prof.universe = 12;
    prof.w = gen::core_weights();
    // the hook itself is only used to size the continuation; after a fault even it may hit a
    // (safe) debug assertion of the underlying map
    let snap = match catch_unwind(AssertUnwindSafe(|| st.q.snapshot())) {
        Ok(s) => s,
        Err(_) => {
            let _ = take_last_panic();
            cn.cont_safe_panics += 1;
            crate::snap::Snap { size: 64, map_len: 64, ..Default::default() }
        }
    };
    if snap.tables().is_err() {
        cn.inconsistent_after_fault += 1;
    }
    let style = rng.below(4);
    let run = |st: &mut State<Q>, op: &Op, cn: &mut Cov| {
        cn.cont_ops += 1;
        let r = catch_unwind(AssertUnwindSafe(|| {
            let _ = st.exec(op);
        }));
        if r.is_err() {
            cn.cont_safe_panics += 1;
            let _ = take_last_panic();
        }
    };
    // phase 1: a few random operations (possibly with a second fault armed)
    let nrand = match style {
        0 => 0,
        1 => 3,
        _ => 8,
    };
    if let Some((cb, k)) = second {
        arm_fuse(cb, k);
    }
    for _ in 0..nrand {
        let op = {
            let mut g = gen::Gen { rng: &mut rng, prof: &prof };
            let s = crate::snap::Snap::default();
            g.op::<Q>(&st.m, &s, true)
        };
        // leaking iterators inside a continuation would blur the ledger verdict
        let op = match op {
            Op::IterMut { n, writes, touch, via_ref, back, .. } => Op::IterMut { n, writes, touch, leak: false, via_ref, back },
            Op::Drain { front, back, .. } => Op::Drain { front, back, leak: false },
            o => o,
        };
        run(st, &op, cn);
    }
    disarm_fuse();
    // phase 2: what exposes stale indices: pop until (apparently) empty, from both ends
    let bound = 2 * snap.map_len.max(snap.size) + 6;
    let ends = Q::ends();
    for i in 0..bound {
        let end = ends[i % ends.len()];
        let mut got = false;
        cn.cont_ops += 1;
        let r = catch_unwind(AssertUnwindSafe(|| st.q.pop(end).is_some()));
        match r {
            Ok(g) => got = g,
            Err(_) => {
                cn.cont_safe_panics += 1;
                let _ = take_last_panic();
            }
        }
        if !got && i >= 2 {
            break;
        }
    }
    // phase 3: by-key operations on the ORIGINAL items (after the pops the map may still hold
    // entries that the index tables no longer cover), refill after shrinking, touch every
    // element, then drain or clear
    for (j, &id) in old_ids.iter().take(6).enumerate() {
        let op = match j % 4 {
            0 => Op::ChangeBy { id, ord: 3, k: true },
            1 => Op::Change { id, ord: -2, k: false },
            2 => Op::Push { id, ord: 4 },
            _ => Op::Remove { id, k: true },
        };
        run(st, &op, cn);
    }
    for id in 0..5u32 {
        run(st, &Op::Push { id: 100 + id, ord: (id as i64) % 3 }, cn);
    }
    run(st, &Op::Remove { id: 101, k: true }, cn);
    run(st, &Op::Change { id: 103, ord: -5, k: false }, cn);
    run(st, &Op::IterMut { n: 3, writes: vec![Some(1), None, Some(7)], touch: false, leak: false, via_ref: false, back: 0 }, cn);
    run(st, &Op::Retain { pred: Pred::IdMod { m: 2, mask: 1 } }, cn);
    // observers and whole-queue operations on the possibly inconsistent queue
    for op in [Op::Observe, Op::EqCheck, Op::IntoVecCheck, Op::CloneSwap, Op::Shrink, Op::Convert, Op::Serde { via_other: false }] {
        run(st, &op, cn);
    }
    match style {
        0 => run(st, &Op::Clear, cn),
        1 => run(st, &Op::Drain { front: 1, back: 1, leak: false }, cn),
        _ => {}
    }
}

#[derive(Default)]
pub struct Cov {
    pub episodes: u64,
    pub crash_points: u64,
    pub fired: u64,
    pub not_reached: u64,
    pub cont_ops: u64,
    pub cont_safe_panics: u64,
    pub inconsistent_after_fault: u64,
    pub by_class: std::collections::BTreeMap<String, u64>,
    pub by_cb: std::collections::BTreeMap<String, u64>,
    pub ledger_checks: u64,
    pub leaks_by_client: u64,
    pub distinct: std::collections::HashSet<u64>,
    pub second_faults: u64,
    pub leak_cases: u64,
}

/// callbacks performed by `op` on the state of `recipe`, per kind (fault-free run)
fn count_callbacks<Q: QueueApi>(r: &Recipe, op: &Op) -> Option<[u64; NCB]> {
    reset_episode();
    let mut st = build::<Q>(r);
    let before = counts();
    let res = catch_unwind(AssertUnwindSafe(|| {
        let _ = st.exec(op);
    }));
    let after = counts();
    if res.is_err() {
        let _ = take_last_panic();
        std::mem::forget(st);
        return None;
    }
    let mut d = [0u64; NCB];
    for i in 0..NCB {
        d[i] = after[i] - before[i];
    }
    Some(d)
}

/// One crash point. Returns a violation if the ledger is unbalanced afterwards.
pub fn run_fault<Q: QueueApi>(c: &FaultCase, cn: &mut Cov) -> Option<Viol> {
    reset_episode();
    let mut st = build::<Q>(&c.recipe);
    let present = match &c.op {
        Op::Push { id, .. } | Op::PushInc { id, .. } | Op::PushDec { id, .. } => st.m.get(*id).is_some(),
        _ => false,
    };
    let class = opclass(&c.op, present);
    cn.crash_points += 1;
    arm_fuse(c.cb, c.k);
    let r = catch_unwind(AssertUnwindSafe(|| {
        let _ = st.exec(&c.op);
    }));
    let fired = disarm_fuse();
    if r.is_err() && !fired {
        // a panic that is not ours while running the faulty operation: a safe panic, allowed
        let _ = take_last_panic();
    }
    if !fired {
        cn.not_reached += 1;
    } else {
        cn.fired += 1;
        *cn.by_class.entry(class.clone()).or_insert(0) += 1;
        *cn.by_cb.entry(format!("{:?}", c.cb)).or_insert(0) += 1;
    }
    // client-side leaks requested by the operation itself
    let client_leaks = st.expected_leaks;
    if c.second.is_some() {
        cn.second_faults += 1;
    }
    let mut old_ids: Vec<u32> = c.recipe.pushes.iter().map(|p| p.0).collect();
    old_ids.reverse();
    continuation(&mut st, c.cont_seed, c.second, &old_ids, cn);
    let client_leaks = client_leaks.max(st.expected_leaks);
    let leaked_guard = matches!(&c.op, Op::Drain { leak: true, .. });
    let dropped = catch_unwind(AssertUnwindSafe(move || drop(st)));
    if dropped.is_err() {
        let _ = take_last_panic();
    }
    cn.ledger_checks += 1;
    let props = vec!["C10"];
    let what = format!("{}/{:?}", class, c.cb);
    if ledger_double_drops() > 0 {
        return Some(Viol { monitor: "M-LEDGER", op: what, kind: Q::KIND.name(), detail: format!("{} values dropped twice after a caught panic at callback {:?}#{}", ledger_double_drops(), c.cb, c.k), props });
    }
    let live = ledger_live();
    if leaked_guard || client_leaks > 0 {
        cn.leaks_by_client += 1;
        // a leaked drain may keep exactly its un-yielded elements alive (the fault may have hit
        // before the drain was created, in which case nothing is leaked)
        if live < 0 || live > client_leaks.max(2 * c.recipe.pushes.len() as i64) {
            return Some(Viol { monitor: "M-LEDGER", op: what, kind: Q::KIND.name(), detail: format!("{} values alive, more than the leaked iterator owned", live), props });
        }
    } else if live != 0 {
        return Some(Viol { monitor: "M-LEDGER", op: what, kind: Q::KIND.name(), detail: format!("{} values leaked (alive after the queue and every returned value were dropped) after a caught panic at callback {:?}#{}", live, c.cb, c.k), props });
    }
    None
}

fn exec_fault<Q: QueueApi>(c: &FaultCase, cn: &mut Cov) -> Option<Viol> {
    run_fault::<Q>(c, cn)
}
fn exec_count<Q: QueueApi>(r: &Recipe, op: &Op) -> Option<[u64; NCB]> {
    count_callbacks::<Q>(r, op)
}

fn gen_fault_op(rng: &mut Rng, kind: Kind, n: usize, ids: u32) -> Op {
    let end = if kind == Kind::Pq || rng.chance(1, 2) { End::Max } else { End::Min };
    let id = rng.below(ids as usize + 2) as u32;
    let ord = rng.range(-1, 4);
    match rng.below(26) {
        0 | 1 | 2 => Op::Push { id: ids + 5 + rng.below(3) as u32, ord }, // new item
        3 | 4 => Op::Push { id, ord },
        5 => Op::PushInc { id, ord },
        6 => Op::PushDec { id, ord },
        7 | 8 => Op::Change { id, ord, k: rng.chance(1, 2) },
        9 => Op::ChangeBy { id, ord, k: rng.chance(1, 2) },
        10 | 11 => Op::Remove { id, k: rng.chance(1, 2) },
        12 => Op::Pop { end },
        13 => Op::PopIf { end, accept: rng.chance(1, 2), rewrite: if rng.chance(1, 2) { Some(ord) } else { None }, touch: false },
        14 => Op::Retain { pred: Pred::IdMod { m: 3, mask: rng.next_u64() } },
        15 => Op::RetainMut { pred: if rng.chance(1, 2) { Pred::All } else { Pred::IdMod { m: 2, mask: rng.next_u64() } }, rewrite: Rewrite::Affine { mul: 3, add: 1, m: 5 } },
        16 => Op::IterMut { n: rng.below(n + 2), writes: (0..n + 1).map(|_| if rng.chance(1, 2) { Some(rng.range(0, 5)) } else { None }).collect(), touch: false, leak: rng.chance(1, 4), via_ref: false, back: rng.below(3) },
        17 | 18 => {
            let m = if rng.chance(1, 2) { rng.below(6) } else { rng.below(40) };
            let pairs = (0..m).map(|_| (rng.below(ids as usize + 6) as u32, rng.range(0, 4))).collect();
            Op::Extend { pairs, hint: *rng.pick(&SAFE_HINTS) }
        }
        19 => {
            let m = rng.below(2 * n + 3);
            Op::Append { pairs: (0..m).map(|_| (rng.below(ids as usize + 6) as u32, rng.range(0, 4))).collect(), cap: 0 }
        }
        20 => {
            if rng.chance(1, 2) {
                Op::CloneSwap
            } else {
                // the queue under test is the destination, so that it survives a panic of Clone
                Op::CloneFrom { pre: (0..rng.below(2 * n + 4)).map(|j| (j as u32, (j % 3) as i64)).collect(), into_self: true }
            }
        }
        21 => Op::Convert,
        22 => Op::Drain { front: rng.below(n + 1), back: rng.below(2), leak: rng.chance(1, 2) },
        _ => rng.pick(&[Op::EqCheck, Op::SortedCheck, Op::Serde { via_other: false }, Op::IntoIterCheck, Op::IntoVecCheck, Op::SortedItemsCheck { desc: true }, Op::SortedItemsCheck { desc: kind == Kind::Pq }, Op::Observe]).clone(),
    }
}

/// mode faults: episodes=N max_n=40 per_kind=64
pub fn mode_faults(a: &Args) -> i32 {
    let seed = a.u("seed", 1);
    let shard = a.u("shard", 0);
    let episodes = a.u("episodes", 200);
    let start = a.u("start", 0);
    let substart = a.u("substart", 0);
    let only = a.kv.get("only").map(|v| v.parse::<u64>().unwrap());
    let max_n = a.u("max_n", 40) as usize;
    let per_kind = a.u("per_kind", 64);
    let kinds = crate::cli::kinds_of(a);
    let hashers = a.list("hashers", "fixed,low2");
    let mut journal = Journal::open(a);
    let mut sink = Sink::default();
    let mut cn = Cov::default();
    let mut samples: Vec<serde_json::Value> = Vec::new();
    for idx in start..episodes {
        if let Some(o) = only {
            if idx != o {
                continue;
            }
        }
        let mut rng = Rng::derive(seed, 6000 + shard, idx);
        let kind = kinds[(idx as usize) % kinds.len()];
        let hasher = hashers[((idx as usize) / kinds.len()) % hashers.len()].clone();
        let n = match rng.below(5) {
            0 => rng.below(4),
            1 => 1 + rng.below(8),
            _ => rng.below(max_n + 1),
        };
        let np = *rng.pick(&[1i64, 2, 4, 1000]);
        let rec = recipe(&mut rng, n, np);
        let ids = (n + 2) as u32;
        let op = gen_fault_op(&mut rng, kind, n, ids);
        let op = if a.u("noleak", 0) == 1 {
            match op {
                Op::IterMut { n, writes, touch, via_ref, back, .. } => Op::IterMut { n, writes, touch, leak: false, via_ref, back },
                Op::Drain { front, back, .. } => Op::Drain { front, back, leak: false },
                o => o,
            }
        } else {
            op
        };
        cn.episodes += 1;
        let counts = match crate::dispatch!(kind, hasher.as_str(), exec_count, &rec, &op) {
            Some(c) => c,
            None => continue,
        };
        journal.line(&format!("EP {}", serde_json::json!({"mode":"faults","index":idx,"kind":kind.name(),"hasher":hasher})));
        let mut sub = 0u64;
        // a leaked drain / iter_mut guard is an event of its own: one case without any panic
        if matches!(&op, Op::Drain { leak: true, .. } | Op::IterMut { leak: true, .. }) && !(idx == start && substart > 0) {
            let c = FaultCase { kind, hasher: hasher.clone(), recipe: rec.clone(), op: op.clone(), cb: Cb::Cmp, k: u64::MAX / 4, cont_seed: rng.next_u64(), second: None };
            if journal.enabled() {
                journal.line(&format!("CASE {}", serde_json::json!({"mode":"faults","what":format!("{}/leak", op.name()),"props":["C10"],"sub":0,"case":c})));
            }
            cn.leak_cases += 1;
            if let Some(v) = crate::dispatch!(kind, hasher.as_str(), exec_fault, &c, &mut cn) {
                sink.viol(&v.props, &v.sig(), &v.detail, serde_json::json!({"mode":"faults","case":c}));
            }
        }
        for cbk in ALL_CB {
            let total = counts[cbk as usize];
            if total == 0 {
                continue;
            }
            // every crash point; sampled (evenly, always including first and last) only above per_kind
            let ks: Vec<u64> = if total <= per_kind {
                (0..total).collect()
            } else {
                let mut v: Vec<u64> = (0..per_kind).map(|i| i * (total - 1) / (per_kind - 1)).collect();
                v.dedup();
                v
            };
            for k in ks {
                let my_sub = sub;
                sub += 1;
                if idx == start && my_sub < substart {
                    continue;
                }
                let second = if rng.chance(1, 6) { Some((Cb::Cmp, rng.below(6) as u64)) } else { None };
                let c = FaultCase { kind, hasher: hasher.clone(), recipe: rec.clone(), op: op.clone(), cb: cbk, k, cont_seed: rng.next_u64(), second };
                if journal.enabled() {
                    journal.line(&format!(
                        "CASE {}",
                        serde_json::json!({"mode":"faults","what":format!("{}/{:?}", op.name(), cbk),"props":["C10"],"sub":my_sub,"case":c})
                    ));
                }
                if cn.distinct.len() < 3_000_000 {
                    let s = serde_json::to_string(&(&c.kind, &c.recipe, &c.op, c.cb as u8, c.k)).unwrap();
                    let mut h = 0xcbf29ce484222325u64;
                    for b in s.bytes() {
                        h = (h ^ b as u64).wrapping_mul(0x100000001b3);
                    }
                    cn.distinct.insert(h);
                }
                if let Some(v) = crate::dispatch!(kind, hasher.as_str(), exec_fault, &c, &mut cn) {
                    sink.viol(&v.props, &v.sig(), &v.detail, serde_json::json!({"mode":"faults","case":c}));
                }
                if samples.len() < 3 && n >= 2 && n <= 6 && k > 0 {
                    samples.push(serde_json::to_value(&c).unwrap());
                }
            }
        }
        journal.line("EPDONE");
    }
    sink.finish_counts(
        "faults",
        cn.crash_points,
        cn.distinct.len() as u64,
        serde_json::json!({
            "fault_episodes_state_x_op": cn.episodes, "crash_points": cn.crash_points, "panics_injected_and_caught": cn.fired,
            "fuse_not_reached": cn.not_reached, "continuation_ops": cn.cont_ops, "continuation_safe_panics": cn.cont_safe_panics,
            "tables_inconsistent_after_fault": cn.inconsistent_after_fault, "by_operation": cn.by_class, "by_callback": cn.by_cb,
            "ledger_checks": cn.ledger_checks, "cases_with_client_leak": cn.leaks_by_client, "second_faults": cn.second_faults, "leaked_iterator_cases": cn.leak_cases,
            "samples": samples,
        }),
    );
    0
}

pub fn replay(rp: &serde_json::Value, sink: &mut Sink, journal: &mut Journal) -> i32 {
    let case = if rp["case"].get("case").is_some() { rp["case"]["case"].clone() } else { rp["case"].clone() };
    let c: FaultCase = serde_json::from_value(case).expect("fault case");
    let mut cn = Cov::default();
    journal.line(&format!("CASE {}", serde_json::json!({"mode":"faults","what":format!("{}/{:?}", c.op.name(), c.cb),"props":["C10"],"case":c})));
    if let Some(v) = crate::dispatch!(c.kind, c.hasher.as_str(), exec_fault, &c, &mut cn) {
        sink.viol(&v.props, &v.sig(), &v.detail, serde_json::json!({"mode":"faults","case":c}));
    }
    0
}
