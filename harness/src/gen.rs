//! Workload generator: profiles (churn, growth, update-storm, bulk, ...) producing explicit ops.

use crate::api::*;
use crate::model::Model;
use crate::ops::*;
use crate::rng::Rng;
use crate::snap::Snap;
use crate::types::*;

#[derive(Clone, Copy, Debug, PartialEq, Eq)]
pub enum Class {
    Push,
    PushIncDec,
    Change,
    ChangeBy,
    Remove,
    Pop,
    PopIf,
    Peek,
    PeekMut,
    Lookup,
    Observe,
    IterMut,
    Retain,
    RetainMut,
    Extend,
    Append,
    Convert,
    CloneSwap,
    Drain,
    Clear,
    Capacity,
    Sorted,
    SortedItems,
    IntoChecks,
    EqCheck,
    Serde,
}
pub const NCLASS: usize = 26;
pub const CLASSES: [Class; NCLASS] = [
    Class::Push,
    Class::PushIncDec,
    Class::Change,
    Class::ChangeBy,
    Class::Remove,
    Class::Pop,
    Class::PopIf,
    Class::Peek,
    Class::PeekMut,
    Class::Lookup,
    Class::Observe,
    Class::IterMut,
    Class::Retain,
    Class::RetainMut,
    Class::Extend,
    Class::Append,
    Class::Convert,
    Class::CloneSwap,
    Class::Drain,
    Class::Clear,
    Class::Capacity,
    Class::Sorted,
    Class::SortedItems,
    Class::IntoChecks,
    Class::EqCheck,
    Class::Serde,
];

#[derive(Clone, Debug)]
pub struct Profile {
    pub name: &'static str,
    pub universe: u32,
    pub ord_lo: i64,
    pub ord_hi: i64,
    pub extreme_ords: bool,
    pub steps: usize,
    /// the generator steers the size towards this by favouring absent / present ids
    pub target: usize,
    /// aim updates at chosen heap positions (through the snapshot)
    pub storm: bool,
    pub w: [u32; NCLASS],
    pub bulk_max: usize,
    /// generate mem::forget of drain / iter_mut guards (off under leak detectors)
    pub allow_leak: bool,
}

fn wv(pairs: &[(Class, u32)]) -> [u32; NCLASS] {
    let mut w = [0u32; NCLASS];
    for (c, x) in pairs {
        w[CLASSES.iter().position(|k| k == c).unwrap()] = *x;
    }
    w
}

use Class::*;

pub fn core_weights() -> [u32; NCLASS] {
    wv(&[
        (Push, 30),
        (PushIncDec, 10),
        (Change, 22),
        (ChangeBy, 10),
        (Remove, 14),
        (Pop, 14),
        (PopIf, 8),
        (Peek, 3),
        (PeekMut, 3),
        (Lookup, 3),
        (Observe, 1),
        (IterMut, 2),
        (Retain, 1),
        (RetainMut, 2),
        (Extend, 2),
        (Append, 1),
        (Convert, 1),
        (CloneSwap, 1),
        (Drain, 1),
        (Clear, 1),
        (Capacity, 2),
        (Sorted, 1),
        (SortedItems, 1),
        (IntoChecks, 1),
        (EqCheck, 1),
        (Serde, 1),
    ])
}

pub fn bulk_weights() -> [u32; NCLASS] {
    wv(&[
        (Push, 12),
        (Change, 6),
        (Remove, 5),
        (Pop, 5),
        (PopIf, 6),
        (IterMut, 10),
        (Retain, 8),
        (RetainMut, 10),
        (Extend, 12),
        (Append, 8),
        (Convert, 4),
        (CloneSwap, 2),
        (Drain, 3),
        (Clear, 2),
        (Capacity, 3),
        (Sorted, 2),
        (SortedItems, 2),
        (IntoChecks, 2),
        (Serde, 3),
        (Observe, 2),
    ])
}

/// single-element operations only (C01/C02/C03/C11/C12 cores, update storm)
pub fn single_weights() -> [u32; NCLASS] {
    wv(&[
        (Push, 26),
        (PushIncDec, 14),
        (Change, 26),
        (ChangeBy, 12),
        (Remove, 14),
        (Pop, 12),
        (PopIf, 10),
        (Peek, 2),
        (PeekMut, 3),
        (Lookup, 3),
    ])
}

pub fn profile(name: &str, rng: &mut Rng) -> Profile {
    match name {
        // tiny universe, few priorities: constant re-insertion, ties, every arrangement of small heaps
        "churn" => {
            let universe = 3 + rng.below(6) as u32;
            let nprio = 1 + rng.below(4) as i64;
            Profile {
                name: "churn",
                universe,
                ord_lo: 0,
                ord_hi: nprio - 1,
                extreme_ords: rng.chance(1, 8),
                steps: 40 + rng.below(80),
                target: universe as usize,
                storm: rng.chance(1, 3),
                w: core_weights(),
                bulk_max: 8,
                allow_leak: true,
            }
        }
        "churn-single" => {
            let universe = 3 + rng.below(8) as u32;
            let nprio = 1 + rng.below(5) as i64;
            Profile {
                name: "churn-single",
                universe,
                ord_lo: 0,
                ord_hi: nprio - 1,
                extreme_ords: rng.chance(1, 8),
                steps: 60 + rng.below(80),
                target: universe as usize,
                storm: rng.chance(1, 2),
                w: single_weights(),
                bulk_max: 8,
                allow_leak: true,
            }
        }
        "growth" => {
            let universe = 16 + rng.below(285) as u32;
            Profile {
                name: "growth",
                universe,
                ord_lo: -(rng.below(1000) as i64) - 1,
                ord_hi: rng.below(1000) as i64 + 1,
                extreme_ords: rng.chance(1, 4),
                steps: 150 + rng.below(250),
                target: (universe as usize * (1 + rng.below(3))) / 3,
                storm: rng.chance(1, 3),
                w: core_weights(),
                bulk_max: 120,
                allow_leak: true,
            }
        }
        "growth-ties" => {
            let universe = 16 + rng.below(120) as u32;
            Profile {
                name: "growth-ties",
                universe,
                ord_lo: 0,
                ord_hi: 1 + rng.below(6) as i64,
                extreme_ords: false,
                steps: 150 + rng.below(200),
                target: universe as usize * 2 / 3,
                storm: rng.chance(1, 2),
                w: core_weights(),
                bulk_max: 60,
                allow_leak: true,
            }
        }
        "storm" => {
            let universe = 8 + rng.below(120) as u32;
            Profile {
                name: "storm",
                universe,
                ord_lo: 0,
                ord_hi: if rng.chance(1, 2) { 8 } else { 100_000 },
                extreme_ords: rng.chance(1, 4),
                steps: 150 + rng.below(250),
                target: universe as usize * 3 / 4,
                storm: true,
                w: single_weights(),
                bulk_max: 16,
                allow_leak: true,
            }
        }
        // large queues: deep heaps (>= 8 levels), positions beyond 255 / 1023
        "huge" => {
            let universe = 600 + rng.below(2400) as u32;
            Profile {
                name: "huge",
                universe,
                ord_lo: if rng.chance(1, 3) { 0 } else { -1_000_000 },
                ord_hi: if rng.chance(1, 3) { 20 } else { 1_000_000 },
                extreme_ords: rng.chance(1, 4),
                steps: 60 + rng.below(60),
                target: universe as usize,
                storm: true,
                w: single_weights(),
                bulk_max: universe as usize,
                allow_leak: true,
            }
        }
        "bulk" => {
            let universe = 4 + rng.below(200) as u32;
            Profile {
                name: "bulk",
                universe,
                ord_lo: 0,
                ord_hi: if rng.chance(1, 2) { 5 } else { 5000 },
                extreme_ords: rng.chance(1, 6),
                steps: 40 + rng.below(80),
                target: universe as usize / 2,
                storm: false,
                w: bulk_weights(),
                bulk_max: 300,
                allow_leak: true,
            }
        }
        "bulk-small" => {
            let universe = 3 + rng.below(6) as u32;
            Profile {
                name: "bulk-small",
                universe,
                ord_lo: 0,
                ord_hi: 1 + rng.below(3) as i64,
                extreme_ords: false,
                steps: 30 + rng.below(40),
                target: universe as usize,
                storm: false,
                w: bulk_weights(),
                bulk_max: 10,
                allow_leak: true,
            }
        }
        // targeted mixes: a base of single-element operations plus one family made dominant
        "sorted" | "mutate" | "incdec" | "drainclear" | "payload" | "capacity" | "convert" => {
            let small = rng.chance(1, 2);
            let universe = if small { 3 + rng.below(7) as u32 } else { 12 + rng.below(150) as u32 };
            let mut w = single_weights();
            let mut set = |c: Class, x: u32| w[CLASSES.iter().position(|k| *k == c).unwrap()] = x;
            let (pname, bulk_max): (&'static str, usize) = match name {
                "sorted" => {
                    set(Sorted, 25);
                    set(SortedItems, 25);
                    set(IntoChecks, 6);
                    set(Extend, 4);
                    set(RetainMut, 4);
                    ("sorted", 40)
                }
                "mutate" => {
                    set(PopIf, 40);
                    set(IterMut, 30);
                    set(Retain, 20);
                    set(RetainMut, 30);
                    set(PeekMut, 8);
                    ("mutate", 40)
                }
                "incdec" => {
                    set(PushIncDec, 120);
                    ("incdec", 10)
                }
                "drainclear" => {
                    set(Drain, 25);
                    set(Clear, 10);
                    set(Extend, 6);
                    set(Append, 4);
                    set(Push, 60);
                    ("drainclear", 30)
                }
                "payload" => {
                    set(PeekMut, 25);
                    set(Lookup, 30);
                    set(IterMut, 12);
                    set(PopIf, 16);
                    set(Convert, 3);
                    set(RetainMut, 5);
                    set(CloneSwap, 2);
                    ("payload", 10)
                }
                "capacity" => {
                    set(Capacity, 60);
                    set(Extend, 5);
                    set(Drain, 3);
                    ("capacity", 60)
                }
                _ => {
                    set(Convert, 30);
                    set(CloneSwap, 10);
                    set(Serde, 10);
                    set(Append, 10);
                    set(Extend, 10);
                    ("convert", 60)
                }
            };
            Profile {
                name: pname,
                universe,
                ord_lo: 0,
                ord_hi: if rng.chance(1, 2) { 1 + rng.below(5) as i64 } else { 100_000 },
                extreme_ords: rng.chance(1, 6),
                steps: 60 + rng.below(140),
                target: (universe as usize * 3) / 4,
                storm: rng.chance(1, 2),
                w,
                bulk_max,
                allow_leak: true,
            }
        }
        other => panic!("unknown profile {}", other),
    }
}

pub struct Gen<'a> {
    pub rng: &'a mut Rng,
    pub prof: &'a Profile,
}

impl<'a> Gen<'a> {
    pub fn ord(&mut self) -> i64 {
        if self.prof.extreme_ords && self.rng.chance(1, 12) {
            return *self.rng.pick(&[i64::MIN, i64::MAX, i64::MIN + 1, i64::MAX - 1]);
        }
        self.rng.range(self.prof.ord_lo, self.prof.ord_hi)
    }
    fn any_id(&mut self) -> u32 {
        self.rng.below(self.prof.universe as usize) as u32
    }
    fn present_id(&mut self, m: &Model) -> Option<u32> {
        if m.len() == 0 {
            return None;
        }
        let k = self.rng.below(m.len());
        m.m.keys().nth(k).copied()
    }
    fn absent_id(&mut self, m: &Model) -> Option<u32> {
        if m.len() >= self.prof.universe as usize {
            return None;
        }
        for _ in 0..8 {
            let id = self.any_id();
            if m.get(id).is_none() {
                return Some(id);
            }
        }
        (0..self.prof.universe).find(|i| m.get(*i).is_none())
    }
    /// an id biased towards presence (p_present in 1/8 units)
    fn id_biased(&mut self, m: &Model, present8: usize) -> u32 {
        if self.rng.chance(present8, 8) {
            self.present_id(m).unwrap_or_else(|| self.any_id())
        } else {
            self.any_id()
        }
    }
    /// update-storm: element at a chosen heap position, priority aimed at the extremes / ties
    fn storm_target(&mut self, m: &Model, s: &Snap) -> Option<(u32, i64)> {
        if s.size == 0 || s.tables().is_err() {
            return None;
        }
        let n = s.size;
        let pos = match self.rng.below(8) {
            0 => 0,
            1 => n - 1,
            2 => (n - 1).min(1),
            3 => (n - 1).min(2),
            4 => n / 2,
            5 => (n - 1).min(3 + self.rng.below(4)),
            _ => self.rng.below(n),
        };
        let id = s.id_at_pos(pos)?;
        let mn = m.extreme(End::Min)?;
        let mx = m.extreme(End::Max)?;
        let own = m.get(id)?.ord;
        let par = if pos > 0 { s.id_at_pos((pos - 1) / 2).and_then(|i| m.get(i)).map(|e| e.ord) } else { None };
        let gpar = if pos > 2 { s.id_at_pos(((pos - 1) / 2 - 1) / 2).and_then(|i| m.get(i)).map(|e| e.ord) } else { None };
        let child = s.id_at_pos(2 * pos + 1).and_then(|i| m.get(i)).map(|e| e.ord);
        let ord = match self.rng.below(10) {
            0 => mn.saturating_sub(1),
            1 => mx.saturating_add(1),
            2 => mn,
            3 => mx,
            4 => own,
            5 => par.unwrap_or(own),
            6 => gpar.unwrap_or(mx),
            7 => child.unwrap_or(mn),
            8 => par.map(|p| p.saturating_add(1)).unwrap_or(own),
            _ => self.ord(),
        };
        Some((id, ord))
    }

    fn pairs(&mut self, m: &Model, max: usize) -> Vec<(u32, i64)> {
        let n = match self.rng.below(6) {
            0 => 0,
            1 => 1,
            2 => self.rng.below(4),
            _ => self.rng.below(max + 1),
        };
        let dup_bias = self.rng.below(4);
        let mut v: Vec<(u32, i64)> = Vec::with_capacity(n);
        for _ in 0..n {
            let id = if dup_bias > 0 && !v.is_empty() && self.rng.chance(dup_bias, 8) {
                v[self.rng.below(v.len())].0
            } else {
                self.id_biased(m, 3)
            };
            v.push((id, self.ord()));
        }
        v
    }

    pub fn hint(&mut self) -> Hint {
        *self.rng.pick(&SAFE_HINTS)
    }

    pub fn pred(&mut self, m: &Model) -> Pred {
        match self.rng.below(8) {
            0 => Pred::All,
            1 => Pred::Nothing,
            2 | 3 => {
                // random subset of the present ids
                let ids: Vec<u32> = m.ids().into_iter().filter(|_| self.rng.chance(1, 2)).collect();
                Pred::Ids(ids)
            }
            4 => {
                let mm = 2 + self.rng.below(5) as u32;
                Pred::IdMod { m: mm, mask: self.rng.next_u64() }
            }
            5 => Pred::OrdBelow(self.ord()),
            6 => Pred::OrdAtLeast(self.ord()),
            _ => {
                // drop exactly one element
                let mut ids = m.ids();
                if !ids.is_empty() {
                    let k = self.rng.below(ids.len());
                    ids.remove(k);
                }
                Pred::Ids(ids)
            }
        }
    }
    pub fn rewrite(&mut self, m: &Model) -> Rewrite {
        match self.rng.below(8) {
            0 => Rewrite::Keep,
            1 => Rewrite::Const(self.ord()),
            2 => Rewrite::Negate,
            3 => Rewrite::Affine {
                mul: 1 + self.rng.below(7) as i64,
                add: self.rng.below(5) as i64,
                m: 2 + self.rng.below((self.prof.ord_hi - self.prof.ord_lo + 2).clamp(1, 1000) as usize) as i64,
            },
            4 => Rewrite::ShiftHalf { d: if self.rng.chance(1, 2) { 1000 } else { -1000 }, parity: self.rng.below(2) as u32 },
            _ => {
                let mut v = Vec::new();
                for id in m.ids() {
                    if self.rng.chance(1, 3) {
                        v.push((id, self.ord()));
                    }
                }
                Rewrite::Map(v)
            }
        }
    }

    pub fn end<Q: QueueApi>(&mut self) -> End {
        *self.rng.pick(Q::ends())
    }

    pub fn ctor(&mut self, empty_model: &Model) -> Ctor {
        if self.prof.name == "huge" {
            let n = self.prof.universe as usize;
            let mut ids: Vec<u32> = (0..n as u32).collect();
            self.rng.shuffle(&mut ids);
            let k = n / 2 + self.rng.below(n / 2);
            let pairs: Vec<(u32, i64)> = ids.into_iter().take(k).map(|i| (i, self.ord())).collect();
            return match self.rng.below(3) {
                0 => Ctor::FromVec(pairs),
                1 => Ctor::FromIter(pairs, Hint::Exact),
                _ => Ctor::FromOther(pairs),
            };
        }
        let cap = *self.rng.pick(&[0usize, 1, 2, 7, 64, 1000]);
        match self.rng.below(14) {
            0 | 1 | 2 => Ctor::New,
            3 => Ctor::WithCapacity(cap),
            4 => Ctor::Default,
            5 => Ctor::WithDefaultHasher,
            6 => Ctor::WithCapacityAndDefaultHasher(cap),
            7 => Ctor::WithHasher,
            8 => Ctor::WithCapacityAndHasher(cap),
            9 | 10 => Ctor::FromVec(self.pairs(empty_model, self.prof.bulk_max)),
            11 | 12 => {
                let h = self.hint();
                Ctor::FromIter(self.pairs(empty_model, self.prof.bulk_max), h)
            }
            _ => Ctor::FromOther(self.pairs(empty_model, self.prof.bulk_max)),
        }
    }

    pub fn op<Q: QueueApi>(&mut self, m: &Model, s: &Snap, suspended: bool) -> Op {
        let op = self.op_raw::<Q>(m, s, suspended);
        if self.prof.allow_leak {
            return op;
        }
        match op {
            Op::IterMut { n, writes, touch, via_ref, back, .. } => Op::IterMut { n, writes, touch, leak: false, via_ref, back },
            Op::Drain { front, back, .. } => Op::Drain { front, back, leak: false },
            o => o,
        }
    }

    fn op_raw<Q: QueueApi>(&mut self, m: &Model, s: &Snap, suspended: bool) -> Op {
        let mut w = self.prof.w;
        let idx = |c: Class| CLASSES.iter().position(|k| *k == c).unwrap();
        // steer the size
        if m.len() < self.prof.target {
            w[idx(Push)] *= 3;
        } else if m.len() > self.prof.target + self.prof.target / 2 + 2 {
            w[idx(Remove)] *= 3;
            w[idx(Pop)] *= 3;
        }
        let _ = suspended;
        let c = CLASSES[self.rng.weighted(&w)];
        let k = self.rng.chance(1, 3);
        match c {
            Push => {
                let id = if m.len() < self.prof.target && self.rng.chance(3, 4) {
                    self.absent_id(m).unwrap_or_else(|| self.any_id())
                } else if self.prof.storm && self.rng.chance(1, 2) {
                    if let Some((id, ord)) = self.storm_target(m, s) {
                        return Op::Push { id, ord };
                    }
                    self.any_id()
                } else {
                    self.any_id()
                };
                Op::Push { id, ord: self.ord() }
            }
            PushIncDec => {
                let (id, ord) = if self.prof.storm && self.rng.chance(1, 2) {
                    self.storm_target(m, s).unwrap_or((0, 0))
                } else {
                    let id = self.id_biased(m, 6);
                    // offered priority: lower / equal / higher than the stored one
                    let ord = match (m.get(id), self.rng.below(4)) {
                        (Some(e), 0) => e.ord,
                        (Some(e), 1) => e.ord.saturating_add(1),
                        (Some(e), 2) => e.ord.saturating_sub(1),
                        _ => self.ord(),
                    };
                    (id, ord)
                };
                if self.rng.chance(1, 2) {
                    Op::PushInc { id, ord }
                } else {
                    Op::PushDec { id, ord }
                }
            }
            Change | ChangeBy => {
                let (id, ord) = if self.prof.storm && self.rng.chance(3, 4) {
                    match self.storm_target(m, s) {
                        Some(t) => t,
                        None => (self.any_id(), self.ord()),
                    }
                } else {
                    (self.id_biased(m, 7), self.ord())
                };
                if c == Change {
                    Op::Change { id, ord, k }
                } else {
                    Op::ChangeBy { id, ord, k }
                }
            }
            Remove => {
                let id = if self.prof.storm && self.rng.chance(1, 2) {
                    self.storm_target(m, s).map(|t| t.0).unwrap_or_else(|| self.any_id())
                } else {
                    self.id_biased(m, 6)
                };
                Op::Remove { id, k }
            }
            Pop => Op::Pop { end: self.end::<Q>() },
            PopIf => {
                let end = self.end::<Q>();
                let rewrite = if self.rng.chance(1, 2) {
                    // raise, lower, to a tie, or leave equal
                    let cur = m.extreme(end);
                    Some(match (cur, self.rng.below(5)) {
                        (Some(c), 0) => c,
                        (Some(c), 1) => c.saturating_add(1 + self.rng.below(3) as i64),
                        (Some(c), 2) => c.saturating_sub(1 + self.rng.below(3) as i64),
                        (Some(_), 3) => m.extreme(if end == End::Min { End::Max } else { End::Min }).unwrap_or(0),
                        _ => self.ord(),
                    })
                } else {
                    None
                };
                Op::PopIf { end, accept: self.rng.chance(1, 2), rewrite, touch: self.rng.chance(1, 4) }
            }
            Peek => Op::Peek { end: self.end::<Q>() },
            PeekMut => Op::PeekMut { end: self.end::<Q>(), touch: self.rng.chance(1, 2) },
            Lookup => {
                let id = self.id_biased(m, 5);
                match self.rng.below(3) {
                    0 => Op::Get { id, k },
                    1 => Op::GetPrio { id, k },
                    _ => Op::GetMut { id, k, touch: self.rng.chance(1, 2) },
                }
            }
            Observe => Op::Observe,
            IterMut => {
                let len = m.len();
                let n = match self.rng.below(5) {
                    0 => 0,
                    1 => len + 2,
                    2 => len,
                    _ => self.rng.below(len + 1),
                };
                let style = self.rng.below(4);
                let writes: Vec<Option<i64>> = (0..n)
                    .map(|_| match style {
                        0 => None,
                        1 => Some(self.ord()),
                        _ => {
                            if self.rng.chance(1, 2) {
                                Some(self.ord())
                            } else {
                                None
                            }
                        }
                    })
                    .collect();
                let back = if self.rng.chance(1, 2) { 0 } else { self.rng.below(len + 2) };
                Op::IterMut { n, writes, touch: self.rng.chance(1, 4), leak: self.rng.chance(1, 10), via_ref: self.rng.chance(1, 3), back }
            }
            Retain => Op::Retain { pred: self.pred(m) },
            RetainMut => {
                let pred = if self.rng.chance(1, 3) { Pred::All } else { self.pred(m) };
                Op::RetainMut { pred, rewrite: self.rewrite(m) }
            }
            Extend => {
                let h = self.hint();
                let max = if self.rng.chance(1, 3) { self.prof.bulk_max * 2 } else { self.prof.bulk_max };
                Op::Extend { pairs: self.pairs(m, max), hint: h }
            }
            Append => {
                let max = if self.rng.chance(1, 2) { self.prof.bulk_max * 2 } else { self.prof.bulk_max / 2 + 1 };
                Op::Append { pairs: self.pairs(m, max), cap: *self.rng.pick(&[0usize, 0, 3, 100]) }
            }
            Convert => Op::Convert,
            CloneSwap => {
                if self.rng.chance(1, 2) {
                    Op::CloneSwap
                } else {
                    // destination shorter, equal or longer than the source
                    let n = match self.rng.below(3) {
                        0 => self.rng.below(3),
                        1 => m.len(),
                        _ => m.len() + 1 + self.rng.below(4),
                    };
                    let self_dst = self.rng.chance(1, 2);
                    let pre = (0..n).map(|j| (if self_dst { j as u32 % self.prof.universe } else { 1000 + j as u32 }, self.ord())).collect();
                    Op::CloneFrom { pre, into_self: self_dst }
                }
            }
            Drain => {
                let len = m.len();
                let a = self.rng.below(len + 2);
                let b = self.rng.below(len + 2 - a.min(len + 1));
                match self.rng.below(4) {
                    0 => Op::Drain { front: 0, back: 0, leak: self.rng.chance(1, 3) },
                    1 => Op::Drain { front: len + 1, back: 1, leak: false },
                    _ => Op::Drain { front: a, back: b, leak: self.rng.chance(1, 5) },
                }
            }
            Clear => Op::Clear,
            Capacity => {
                let n = *self.rng.pick(&[0usize, 1, 2, 5, 17, 100, 1000]);
                match self.rng.below(7) {
                    0 => Op::Reserve(n),
                    1 => Op::ReserveExact(n),
                    2 => Op::TryReserve(n),
                    3 => Op::TryReserveExact(n),
                    4 => Op::TryReserve(*self.rng.pick(&[usize::MAX, usize::MAX / 2, usize::MAX / 16, usize::MAX - 1])),
                    5 => Op::TryReserveExact(*self.rng.pick(&[usize::MAX, usize::MAX / 2, usize::MAX / 16, usize::MAX - 1])),
                    _ => Op::Shrink,
                }
            }
            Sorted => Op::SortedCheck,
            SortedItems => Op::SortedItemsCheck { desc: Q::KIND == Kind::Pq || self.rng.chance(1, 2) },
            IntoChecks => {
                if self.rng.chance(1, 2) {
                    Op::IntoIterCheck
                } else {
                    Op::IntoVecCheck
                }
            }
            EqCheck => Op::EqCheck,
            Serde => Op::Serde { via_other: self.rng.chance(1, 2) },
        }
    }
}
