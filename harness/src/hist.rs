//! Episode runner: generated or replayed histories under all per-step monitors, panic capture,
//! ledger balance, coverage accounting.

use crate::api::*;
use crate::gen::*;
use crate::model::Model;
use crate::ops::*;
use crate::rng::Rng;
use crate::snap::Snap;
use crate::types::*;
use serde::{Deserialize, Serialize};
use std::collections::{BTreeMap, HashSet};
use std::panic::{catch_unwind, AssertUnwindSafe};

#[derive(Clone, Debug, Serialize, Deserialize)]
pub struct History {
    pub kind: Kind,
    pub hasher: String,
    pub ctor: Ctor,
    pub ops: Vec<Op>,
    /// ids whose presence/absence is probed through the lookups after every step
    pub universe: u32,
}

#[derive(Clone, Debug, Serialize)]
pub struct Report {
    pub viol: Viol,
    pub step: usize,
    pub history: History,
}

#[derive(Default)]
pub struct Stats {
    pub episodes: u64,
    pub ops: u64,
    pub op_counts: BTreeMap<&'static str, u64>,
    pub ctor_counts: BTreeMap<&'static str, u64>,
    pub state_op: HashSet<u64>,
    pub arrangements: HashSet<u64>,
    pub max_size: usize,
    pub size_buckets: [u64; 8], // 0, 1, 2, 3, 4-15, 16-63, 64-255, 256+
    pub ops_with_ties: u64,
    pub remove_cases: [u64; 9],
    pub pop_cases: [u64; 4],
    pub events: BTreeMap<&'static str, u64>,
    pub suspended_ops: u64,
    pub samples: Vec<serde_json::Value>,
    /// DPQ: (level parity of the touched position) x (moved to other parity / same parity moved / stayed)
    pub dpq_moves: [u64; 6],
}
pub const SET_CAP: usize = 3_000_000;
/// set by the driver for a shard that already aborted several times: skip the drain probe after
/// table violations so that the shard can run to completion
pub static NO_PROBE: std::sync::atomic::AtomicBool = std::sync::atomic::AtomicBool::new(false);

impl Stats {
    pub fn ev(&mut self, k: &'static str, n: u64) {
        *self.events.entry(k).or_insert(0) += n;
    }
    fn size_bucket(n: usize) -> usize {
        match n {
            0 => 0,
            1 => 1,
            2 => 2,
            3 => 3,
            4..=15 => 4,
            16..=63 => 5,
            64..=255 => 6,
            _ => 7,
        }
    }
    pub fn to_json(&self) -> serde_json::Value {
        serde_json::json!({
            "episodes": self.episodes,
            "ops": self.ops,
            "op_counts": self.op_counts,
            "ctor_counts": self.ctor_counts,
            "distinct_state_op": self.state_op.len(),
            "distinct_arrangements": self.arrangements.len(),
            "max_size": self.max_size,
            "size_buckets": self.size_buckets,
            "ops_with_ties": self.ops_with_ties,
            "remove_cases": self.remove_cases,
            "pop_cases": self.pop_cases,
            "events": self.events,
            "suspended_ops": self.suspended_ops,
            "dpq_moves": self.dpq_moves,
            "samples": self.samples,
        })
    }
}

fn op_hash(op: &Op) -> u64 {
    // class of the operation (name + a little of its shape), not its full arguments
    let mut h = 0xcbf29ce484222325u64;
    for b in op.name().bytes() {
        h = (h ^ b as u64).wrapping_mul(0x100000001b3);
    }
    let extra: u64 = match op {
        Op::Push { id, ord } | Op::PushInc { id, ord } | Op::PushDec { id, ord } | Op::Change { id, ord, .. } | Op::ChangeBy { id, ord, .. } => (*id as u64) << 32 ^ (*ord as u64),
        Op::Remove { id, .. } | Op::Get { id, .. } | Op::GetPrio { id, .. } | Op::GetMut { id, .. } => *id as u64,
        Op::PopIf { accept, rewrite, .. } => (*accept as u64) ^ (rewrite.map(|x| x as u64).unwrap_or(0x77) << 1),
        _ => 0,
    };
    crate::rng::mix(h ^ crate::rng::mix(extra))
}

/// which branch of the index repair a removal will take, from the pre-state
fn classify_removal(stats: &mut Stats, op: &Op, s: &Snap, kind: Kind) {
    if s.size == 0 || s.tables().is_err() {
        return;
    }
    let last = s.size - 1;
    match op {
        Op::Remove { id, .. } => {
            if let Some(slot) = s.ent.iter().position(|e| e.0 == *id) {
                let pos = s.qp[slot];
                let a = if slot == last {
                    0
                } else if s.qp[last] == last {
                    1
                } else {
                    2
                };
                let b = if pos == last {
                    0
                } else if s.heap[last] == last {
                    1
                } else {
                    2
                };
                stats.remove_cases[a * 3 + b] += 1;
            }
        }
        Op::Pop { end } | Op::PopIf { end, accept: true, .. } => {
            let pos = match (kind, end) {
                (_, End::Min) | (Kind::Pq, _) => 0,
                (Kind::Dpq, End::Max) => match s.size {
                    1 => 0,
                    2 => 1,
                    _ => {
                        if s.ent[s.heap[1]].2 >= s.ent[s.heap[2]].2 {
                            1
                        } else {
                            2
                        }
                    }
                },
            };
            let head = s.heap[pos];
            let c = (if pos < last { 1 } else { 0 }) * 2 + if head < last { 1 } else { 0 };
            stats.pop_cases[c] += 1;
        }
        _ => {}
    }
}

fn level_parity(pos: usize) -> usize {
    ((usize::BITS - 1 - (pos + 1).leading_zeros()) % 2) as usize
}

fn classify_dpq_move(stats: &mut Stats, op: &Op, before: &Snap, after: &Snap) {
    let id = match op {
        Op::Change { id, .. } | Op::ChangeBy { id, .. } | Op::Push { id, .. } | Op::PushInc { id, .. } | Op::PushDec { id, .. } => *id,
        _ => return,
    };
    if let (Some(p0), Some(p1)) = (before.pos_of_id(id), after.pos_of_id(id)) {
        let par = level_parity(p0);
        let cls = if p0 == p1 {
            2
        } else if level_parity(p1) != par {
            0
        } else {
            1
        };
        stats.dpq_moves[par * 3 + cls] += 1;
    }
}

pub struct EpisodeCfg<'a> {
    pub universe: u32,
    pub full_every: usize,
    pub sorted_every: usize,
    pub max_viols: usize,
    /// written (and flushed by the callee) before every operation when tracing an abort
    pub journal: Option<&'a mut dyn FnMut(&str)>,
}

pub fn panic_viol(kind: Kind, opname: &str, extra: &[&'static str]) -> Viol {
    let msg = take_last_panic().unwrap_or_else(|| "<panic without message>".to_string());
    let mut props = vec!["C04"];
    for p in extra {
        if ["C07", "C09", "C13", "C15", "C16", "C17", "C06"].contains(p) && !props.contains(p) {
            props.push(p);
        }
    }
    Viol { monitor: "M-PANIC", op: opname.to_string(), kind: kind.name(), detail: format!("panic: {}", msg), props }
}

/// After a violation the model is re-read from the map. True iff the queue is then consistent with
/// it (order aside): every content monitor is silent on the resynchronised state.
fn resync_explains<Q: QueueApi>(st: &mut State<Q>, universe: &[u32]) -> bool {
    let saved = st.order_suspended;
    st.order_suspended = true;
    let r = catch_unwind(AssertUnwindSafe(|| st.post_check("resync", &[], universe, true).is_ok()));
    st.order_suspended = saved;
    matches!(r, Ok(true))
}

/// Control for "the queue stays usable after <event>" continuations: the same operations on a
/// queue in the same state that never saw the event. A violation here belongs to the operations
/// themselves (reported under their own properties), not to the event under test; the caller then
/// skips the tagged continuation.
pub fn control_run<Q: QueueApi>(ctl: State<Q>, ops: &[Op], universe: &[u32], sorted: bool) -> Result<(), Viol> {
    let mut ctl = ctl;
    let r = catch_unwind(AssertUnwindSafe(|| -> Result<(), Viol> {
        ctl.post_check("control", &[], universe, true)?;
        for op in ops {
            ctl.exec(op)?;
            ctl.post_check(op.name(), op.extra_props(), universe, true)?;
        }
        if sorted && !ctl.order_suspended {
            ctl.exec(&Op::SortedCheck)?;
        }
        Ok(())
    }));
    match r {
        Ok(Ok(())) => Ok(()),
        Ok(Err(v)) => {
            std::mem::forget(ctl);
            Err(v)
        }
        Err(_) => {
            std::mem::forget(ctl);
            Err(panic_viol(Q::KIND, "control", &[]))
        }
    }
}

/// Run one history. `next_op` yields the next operation given the current model / snapshot
/// (generator) or the next recorded one (replay). Returns the reports and the trace.
pub fn run_history<Q: QueueApi>(
    ctor: &Ctor,
    mut next_op: impl FnMut(&Model, &Snap, bool, usize) -> Option<Op>,
    cfg: &mut EpisodeCfg,
    stats: &mut Stats,
) -> (Vec<Report>, History, Vec<Ret>) {
    reset_episode();
    let mut hist = History { kind: Q::KIND, hasher: <Q::H as HasherCfg>::NAME.to_string(), ctor: ctor.clone(), ops: Vec::new(), universe: cfg.universe };
    let mut reports: Vec<Report> = Vec::new();
    let mut trace: Vec<Ret> = Vec::new();
    let universe: Vec<u32> = (0..cfg.universe).collect();
    *stats.ctor_counts.entry(ctor.name()).or_insert(0) += 1;
    stats.episodes += 1;
    if let Some(j) = cfg.journal.as_mut() {
        j(&format!("CTOR {}", serde_json::to_string(ctor).unwrap()));
    }

    let built = catch_unwind(AssertUnwindSafe(|| State::<Q>::construct(ctor)));
    let mut st = match built {
        Ok(Ok(st)) => st,
        Ok(Err(v)) => {
            reports.push(Report { viol: v, step: 0, history: hist.clone() });
            return (reports, hist, trace);
        }
        Err(_) => {
            let v = panic_viol(Q::KIND, ctor.name(), ctor.extra_props());
            reports.push(Report { viol: v, step: 0, history: hist.clone() });
            return (reports, hist, trace);
        }
    };
    let mut ledger_trust = true;
    let mut dead = false;
    // check the constructed queue
    let mut snap = match catch_unwind(AssertUnwindSafe(|| st.post_check(ctor.name(), ctor.extra_props(), &universe, true))) {
        Ok(Ok(s)) => s,
        Ok(Err(v)) => {
            reports.push(Report { viol: v, step: 0, history: hist.clone() });
            let s = st.q.snapshot();
            if s.ent.len() != s.map_len {
                std::mem::forget(st);
                return (reports, hist, trace);
            }
            if s.tables().is_err() {
                st.tables_broken = true;
                st.order_suspended = true;
            }
            if matches!(reports.last().map(|r| r.viol.monitor), Some("M-ORDER")) {
                // reported against the constructor; later operations did not cause it
                st.order_suspended = true;
            }
            st.m = Model::from_snap(&s);
            if !resync_explains(&mut st, &universe) {
                std::mem::forget(st);
                return (reports, hist, trace);
            }
            s
        }
        Err(_) => {
            reports.push(Report { viol: panic_viol(Q::KIND, ctor.name(), ctor.extra_props()), step: 0, history: hist.clone() });
            std::mem::forget(st);
            return (reports, hist, trace);
        }
    };

    let mut step = 0usize;
    while let Some(op) = next_op(&st.m, &snap, st.order_suspended, step) {
        step += 1;
        if let Some(j) = cfg.journal.as_mut() {
            j(&format!("OP {}", serde_json::to_string(&op).unwrap()));
        }
        hist.ops.push(op.clone());
        // coverage accounting on the pre-state
        stats.ops += 1;
        *stats.op_counts.entry(op.name()).or_insert(0) += 1;
        if snap.size > 0 {
            if stats.state_op.len() < SET_CAP {
                stats.state_op.insert(snap.state_key() ^ op_hash(&op));
            }
            if stats.arrangements.len() < SET_CAP {
                stats.arrangements.insert(snap.arrangement_key());
            }
            if snap.ties() > 0 {
                stats.ops_with_ties += 1;
            }
        }
        stats.max_size = stats.max_size.max(snap.size);
        stats.size_buckets[Stats::size_bucket(snap.size)] += 1;
        if st.order_suspended {
            stats.suspended_ops += 1;
        }
        classify_removal(stats, &op, &snap, Q::KIND);

        let full = cfg.full_every > 0 && step % cfg.full_every == 0;
        let res = catch_unwind(AssertUnwindSafe(|| {
            let r = st.exec(&op)?;
            let s = st.post_check(op.name(), op.extra_props(), &universe, full)?;
            Ok::<(Ret, Snap), Viol>((r, s))
        }));
        match res {
            Ok(Ok((r, s))) => {
                trace.push(r);
                stats.ev("M-RET", 1);
                stats.ev("M-TABLES", 1);
                stats.ev("M-CONTENT-lookups", universe.len() as u64 * 5);
                if !st.order_suspended {
                    stats.ev("M-ORDER", 1);
                }
                if Q::KIND == Kind::Dpq {
                    classify_dpq_move(stats, &op, &snap, &s);
                }
                snap = s;
            }
            Ok(Err(v)) => {
                reports.push(Report { viol: v, step, history: hist.clone() });
                trace.push(Ret::Unit);
                ledger_trust = false;
                // resynchronise the model with the real contents and go on, if the tables allow it
                let s = st.q.snapshot();
                if reports.len() >= cfg.max_viols || s.ent.len() != s.map_len {
                    dead = true;
                    break;
                }
                if s.tables().is_err() {
                    // the index tables are inconsistent (reported). Observe the consequence for
                    // extraction once - a bounded drain against the contents of the map - and end
                    // the episode: going on would mostly produce panics inside the crate.
                    if !NO_PROBE.load(std::sync::atomic::Ordering::Relaxed) {
                        if let Some(j) = cfg.journal.as_mut() {
                            j("PROBE drain after table violation");
                        }
                        for v in drain_probe(&mut st, &s) {
                            reports.push(Report { viol: v, step, history: hist.clone() });
                        }
                    }
                    dead = true;
                    break;
                }
                st.m = Model::from_snap(&s);
                if !resync_explains(&mut st, &universe) {
                    // the contents of the map still do not explain what the queue reports (duplicate
                    // keys, stored items that cannot be looked up): whatever later operations show
                    // could not be attributed to them. The episode ends here.
                    dead = true;
                    break;
                }
                let last_mon = reports.last().map(|r| r.viol.monitor);
                let order_err = if st.order_suspended {
                    None
                } else {
                    match Q::KIND {
                        Kind::Pq => s.order_max(),
                        Kind::Dpq => s.order_minmax(),
                    }
                    .err()
                };
                if let (Some(d), false) = (&order_err, matches!(last_mon, Some("M-ORDER"))) {
                    // the same operation also left the order broken (a monitor evaluated earlier fired
                    // first): say so against this operation, not against whatever happens to come next
                    let mon = Mon { kind: Q::KIND, opname: op.name(), extra: op.extra_props() };
                    reports.push(Report { viol: mon.order(d.clone()), step, history: hist.clone() });
                }
                if order_err.is_some() || matches!(last_mon, Some("M-ORDER") | Some("M-RET-extreme") | Some("M-DRAIN")) {
                    // the order is broken. Observe its consequence for sorted consumption right away
                    // (a different property), then stop judging the order until a rebuild
                    if last_mon != Some("M-DRAIN") {
                        st.order_suspended = false;
                        if let Ok(Err(v)) = catch_unwind(AssertUnwindSafe(|| st.exec(&Op::SortedCheck))) {
                            let mut h = hist.clone();
                            h.ops.push(Op::SortedCheck);
                            reports.push(Report { viol: v, step, history: h });
                        }
                        stats.ev("M-DRAIN", 1);
                    }
                    st.order_suspended = true;
                }
                snap = s;
            }
            Err(_) => {
                reports.push(Report { viol: panic_viol(Q::KIND, op.name(), op.extra_props()), step, history: hist.clone() });
                ledger_trust = false;
                dead = true;
                break;
            }
        }
        if !dead && cfg.sorted_every > 0 && step % cfg.sorted_every == 0 && !st.order_suspended {
            let r = catch_unwind(AssertUnwindSafe(|| st.exec(&Op::SortedCheck)));
            stats.ev("M-DRAIN", 1);
            match r {
                Ok(Ok(_)) => {}
                Ok(Err(v)) => {
                    let mut h = hist.clone();
                    h.ops.push(Op::SortedCheck);
                    reports.push(Report { viol: v, step, history: h });
                    if reports.len() >= cfg.max_viols {
                        dead = true;
                        break;
                    }
                }
                Err(_) => {
                    let mut h = hist.clone();
                    h.ops.push(Op::SortedCheck);
                    reports.push(Report { viol: panic_viol(Q::KIND, "into_sorted_iter", &["C06"]), step, history: h });
                    dead = true;
                    break;
                }
            }
        }
    }
    if dead || st.tables_broken {
        // state unknown: do not run its destructor inside the monitor
        std::mem::forget(st);
        return (reports, hist, trace);
    }
    // final sorted drain + drop + ledger
    if !st.order_suspended && reports.is_empty() {
        if let Ok(Err(v)) = catch_unwind(AssertUnwindSafe(|| st.exec(&Op::SortedCheck))) {
            let mut h = hist.clone();
            h.ops.push(Op::SortedCheck);
            reports.push(Report { viol: v, step, history: h });
        }
        stats.ev("M-DRAIN", 1);
    }
    let expected_leaks = st.expected_leaks;
    let used_dc = st.used_drain_or_clear;
    let dropped = catch_unwind(AssertUnwindSafe(move || drop(st)));
    if dropped.is_err() {
        reports.push(Report { viol: panic_viol(Q::KIND, "drop", &[]), step, history: hist.clone() });
    } else if ledger_trust {
        stats.ev("M-LEDGER", 1);
        let dd = ledger_double_drops();
        let live = ledger_live();
        if dd > 0 {
            reports.push(Report {
                viol: Viol { monitor: "M-LEDGER", op: "drop".into(), kind: Q::KIND.name(), detail: format!("{} values dropped twice", dd), props: vec!["C04"] },
                step,
                history: hist.clone(),
            });
        } else if live != expected_leaks {
            let props = if used_dc { vec!["C16"] } else { vec![] };
            reports.push(Report {
                viol: Viol {
                    monitor: "M-LEDGER",
                    op: "drop".into(),
                    kind: Q::KIND.name(),
                    detail: format!("{} values alive after the queue was dropped, expected {} (leaked by the client)", live, expected_leaks),
                    props,
                },
                step,
                history: hist.clone(),
            });
        }
    }
    (reports, hist, trace)
}

/// One generated episode.
pub fn run_generated<Q: QueueApi>(rng: &mut Rng, prof: &Profile, stats: &mut Stats, journal: Option<&mut dyn FnMut(&str)>) -> Vec<Report> {
    let empty = Model::default();
    let ctor = {
        let mut g = Gen { rng, prof };
        let c = g.ctor(&empty);
        // the degenerate hashers make every lookup linear: keep bulk constructors small there
        c
    };
    let steps = prof.steps;
    let mut cfg = EpisodeCfg {
        universe: prof.universe.min(if <Q::H as HasherCfg>::DEGENERATE { 24 } else { 48 }),
        full_every: if prof.universe <= 12 { 1 } else { 8 },
        sorted_every: if prof.universe <= 12 { 4 } else { 32 },
        max_viols: 3,
        journal,
    };
    let (reports, hist, _) = run_history::<Q>(
        &ctor,
        |m, s, susp, step| {
            if step >= steps {
                return None;
            }
            let mut g = Gen { rng, prof };
            Some(g.op::<Q>(m, s, susp))
        },
        &mut cfg,
        stats,
    );
    if stats.samples.len() < 3 && hist.ops.len() >= 5 {
        let mut h = hist.clone();
        h.ops.truncate(12);
        stats.samples.push(serde_json::to_value(&h).unwrap());
    }
    reports
}

/// Replay an explicit history (from a replay file or the corpus).
pub fn run_replay<Q: QueueApi>(h: &History, stats: &mut Stats, journal: Option<&mut dyn FnMut(&str)>) -> (Vec<Report>, Vec<Ret>) {
    let mut cfg = EpisodeCfg { universe: h.universe, full_every: 1, sorted_every: 1, max_viols: 3, journal };
    let ops = h.ops.clone();
    let (r, _, t) = run_history::<Q>(&h.ctor, |_, _, _, step| ops.get(step).cloned(), &mut cfg, stats);
    (r, t)
}

/// Run an explicit history with chosen monitor cadence (used by the bulk / capacity / hasher modes).
pub fn run_explicit<Q: QueueApi>(h: &History, full_every: usize, sorted_every: usize, stats: &mut Stats, journal: Option<&mut dyn FnMut(&str)>) -> (Vec<Report>, Vec<Ret>) {
    let mut cfg = EpisodeCfg { universe: h.universe, full_every, sorted_every, max_viols: 3, journal };
    let ops = h.ops.clone();
    let (r, _, t) = run_history::<Q>(&h.ctor, |_, _, _, step| ops.get(step).cloned(), &mut cfg, stats);
    (r, t)
}

/// After a reported table inconsistency: pop everything (bounded, every call under catch_unwind)
/// and compare with the contents the map still holds. A pair that is not stored, a pair that is
/// not an extreme of what remains, and elements that can no longer be extracted are consequences
/// for C03 / C01 / C02; a panic is one for C04.
fn drain_probe<Q: QueueApi>(st: &mut State<Q>, s: &Snap) -> Vec<Viol> {
    let mut out: Vec<Viol> = Vec::new();
    let kind = Q::KIND;
    let ordp = if kind == Kind::Pq { "C01" } else { "C02" };
    let mut m = Model::from_snap(s);
    let bound = m.len() + 2;
    let ends = Q::ends();
    let mk = |monitor: &'static str, detail: String, props: Vec<&'static str>| Viol { monitor, op: "drain-after-table-violation".to_string(), kind: kind.name(), detail, props };
    for i in 0..bound {
        let end = ends[i % ends.len()];
        let want = m.extreme(end);
        let r = catch_unwind(AssertUnwindSafe(|| st.q.pop(end).map(|(it, p)| (it.id(), p.ord))));
        match r {
            Err(_) => {
                let msg = take_last_panic().unwrap_or_default();
                out.push(mk("M-PANIC", format!("panic while extracting after a table inconsistency: {}", msg), vec!["C04"]));
                break;
            }
            Ok(None) => {
                if !m.m.is_empty() {
                    out.push(mk("M-LOST", format!("pop returns None while {} stored elements were never extracted", m.len()), vec![ordp, "C03"]));
                }
                break;
            }
            Ok(Some((id, ord))) => match m.m.remove(&id) {
                None => {
                    out.push(mk("M-RET", format!("pop returned item {} which is not stored (or was already extracted)", id), vec!["C03", ordp]));
                    break;
                }
                Some(e) => {
                    if e.ord != ord {
                        out.push(mk("M-RET", format!("pop returned item {} with priority {} but it is stored with {}", id, ord, e.ord), vec!["C03"]));
                        break;
                    }
                    if Some(ord) != want && !out.iter().any(|v| v.monitor == "M-RET-extreme") {
                        out.push(mk("M-RET-extreme", format!("pop returned priority {} but the extreme of what is stored is {:?}", ord, want), vec![ordp]));
                    }
                }
            },
        }
    }
    out
}
