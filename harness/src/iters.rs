//! Iterator protocol checker (M-ITER), address-disjointness monitor (M-ALIAS), std-adaptor length
//! probes, drain/clear post-conditions. Serves C06, C09, C13, C16 (and C08 for iter_mut drop).

#[allow(unused_imports)]
use crate::api::probe::{BackNo, BackYes, Wrap};
use crate::api::*;
use crate::cli::{Args, Journal, Sink};
use crate::gen;
use crate::model::{MEnt, Model};
use crate::ops::*;
use crate::rng::Rng;
use crate::types::*;
use serde::{Deserialize, Serialize};
use std::collections::{BTreeMap, BTreeSet};
use std::panic::{catch_unwind, AssertUnwindSafe};

#[derive(Clone, Debug, Serialize, Deserialize, PartialEq)]
pub struct Recipe {
    pub pushes: Vec<(u32, i64)>,
    pub removes: Vec<u32>,
    pub changes: Vec<(u32, i64)>,
}

pub fn build<Q: QueueApi>(r: &Recipe) -> State<Q> {
    let mut st = State::<Q>::construct(&Ctor::New).ok().expect("construct");
    for &(id, ord) in &r.pushes {
        let _ = st.exec(&Op::Push { id, ord });
    }
    for &id in &r.removes {
        let _ = st.exec(&Op::Remove { id, k: false });
    }
    for &(id, ord) in &r.changes {
        let _ = st.exec(&Op::Change { id, ord, k: true });
    }
    st
}

/// `build` under the per-operation monitors: a receiver that is already wrong before the
/// behaviour under test starts is reported under the properties of what broke it, and the case
/// built on it is skipped (nothing about iterators, serde or capacity can be judged on it).
pub fn build_checked<Q: QueueApi>(r: &Recipe) -> Result<State<Q>, Viol> {
    match catch_unwind(AssertUnwindSafe(|| build_checked_inner::<Q>(r))) {
        Ok(x) => x,
        // a panic while building the receiver with plain pushes / removes / updates: C04 only
        Err(_) => Err(crate::hist::panic_viol(Q::KIND, "build", &[])),
    }
}

fn build_checked_inner<Q: QueueApi>(r: &Recipe) -> Result<State<Q>, Viol> {
    let mut st = State::<Q>::construct(&Ctor::New)?;
    for &(id, ord) in &r.pushes {
        st.exec(&Op::Push { id, ord })?;
    }
    for &id in &r.removes {
        st.exec(&Op::Remove { id, k: false })?;
    }
    for &(id, ord) in &r.changes {
        st.exec(&Op::Change { id, ord, k: true })?;
    }
    let universe: Vec<u32> = (0..(r.pushes.len() as u32 + 2).min(48)).collect();
    st.post_check("build", &[], &universe, true)?;
    Ok(st)
}

pub fn recipe(rng: &mut Rng, n: usize, nprio: i64) -> Recipe {
    // n elements left at the end, slots shuffled by removing some extra elements
    let extra = if n == 0 { rng.below(2) } else { rng.below(3) };
    let mut ids: Vec<u32> = (0..(n + extra) as u32).collect();
    rng.shuffle(&mut ids);
    let pushes: Vec<(u32, i64)> = ids.iter().map(|&i| (i, rng.range(0, nprio - 1))).collect();
    let removes: Vec<u32> = ids.iter().copied().take(extra).collect();
    let mut changes = Vec::new();
    for &i in ids.iter().skip(extra) {
        if rng.chance(1, 3) {
            changes.push((i, rng.range(0, nprio - 1)));
        }
    }
    Recipe { pushes, removes, changes }
}

#[derive(Clone, Copy, Debug, Serialize, Deserialize, PartialEq, Eq, Hash, PartialOrd, Ord)]
pub enum Which {
    Iter,
    IterRef,
    IntoIter,
    Drain,
    Sorted,
    IterMut,
    IterMutRef,
}
pub const ALL_WHICH: [Which; 7] = [Which::Iter, Which::IterRef, Which::IntoIter, Which::Drain, Which::Sorted, Which::IterMut, Which::IterMutRef];

#[derive(Clone, Debug, Serialize, Deserialize)]
pub struct Case {
    pub kind: Kind,
    pub which: Which,
    pub recipe: Recipe,
    /// 'N' = next, 'B' = next_back
    pub script: String,
    /// iter_mut: priority written through the j-th yielded reference
    pub writes: Vec<Option<i64>>,
    /// iter_mut: keep every yielded reference and write through all of them after every step
    pub hold: bool,
    pub leak: bool,
    /// continuation on the emptied queue (drain) versus a fresh queue
    pub after: Vec<Op>,
}

#[derive(Clone, Copy)]
enum Call {
    Next,
    Back,
    Len,
    Hint,
}
enum Reply<X> {
    Item(Option<X>),
    NoBack,
    Len(Option<usize>),
    Hint((usize, Option<usize>)),
}

struct Fail {
    what: &'static str,
    detail: String,
}

/// Drive an iterator through a script, keeping the number of elements still to come.
fn drive<X>(
    total: usize,
    script: &str,
    call: &mut dyn FnMut(Call) -> Reply<X>,
    on_item: &mut dyn FnMut(X, bool, usize) -> Result<(), Fail>,
    counters: &mut Counters,
) -> Result<usize, Fail> {
    let mut rem = total;
    let mut soft: Option<Fail> = None;
    let check_sizes = |call: &mut dyn FnMut(Call) -> Reply<X>, rem: usize, counters: &mut Counters| -> Result<(), Fail> {
        let exact = match call(Call::Len) {
            Reply::Len(Some(l)) => {
                counters.len_checks += 1;
                if l != rem {
                    return Err(Fail { what: "len", detail: format!("len() = {} but {} elements are still to come", l, rem) });
                }
                true
            }
            _ => false,
        };
        if let Reply::Hint((lo, hi)) = call(Call::Hint) {
            counters.hint_checks += 1;
            if exact {
                if (lo, hi) != (rem, Some(rem)) {
                    return Err(Fail { what: "size_hint", detail: format!("declares an exact size but size_hint() = ({}, {:?}) with {} elements still to come", lo, hi, rem) });
                }
            } else if lo > rem || hi.map_or(false, |h| h < rem) {
                return Err(Fail { what: "size_hint", detail: format!("illegal size_hint() = ({}, {:?}) with {} elements still to come", lo, hi, rem) });
            }
        }
        Ok(())
    };
    for ch in script.chars() {
        if let Err(f) = check_sizes(call, rem, counters) {
            // a wrong len()/size_hint() does not stop the script: what follows is still observed
            soft.get_or_insert(f);
        }
        let back = ch == 'B';
        let r = call(if back { Call::Back } else { Call::Next });
        counters.calls += 1;
        match r {
            Reply::NoBack => return Ok(rem), // script not applicable to this type
            Reply::Item(Some(x)) => {
                if rem == 0 {
                    return Err(Fail { what: "extra", detail: format!("yielded an element after all {} had been yielded ({} call)", total, if back { "next_back" } else { "next" }) });
                }
                on_item(x, back, rem)?;
                rem -= 1;
            }
            Reply::Item(None) => {
                if rem != 0 {
                    return Err(Fail { what: "early-none", detail: format!("returned None with {} of {} elements not yet yielded ({} call)", rem, total, if back { "next_back" } else { "next" }) });
                }
            }
            _ => unreachable!(),
        }
    }
    if let Err(f) = check_sizes(call, rem, counters) {
        soft.get_or_insert(f);
    }
    match soft {
        Some(f) => Err(f),
        None => Ok(rem),
    }
}

#[derive(Default, Clone)]
pub struct Counters {
    pub cases: u64,
    pub calls: u64,
    pub len_checks: u64,
    pub hint_checks: u64,
    pub alias_checks: u64,
    pub adaptor_probes: u64,
    pub adaptor_exact: u64,
    pub consumer_probes: u64,
    pub twin_ops: u64,
    pub ledger_checks: u64,
    pub by_which: BTreeMap<String, u64>,
    pub distinct: BTreeSet<u64>,
    pub not_applicable: u64,
}

fn which_props(w: Which) -> Vec<&'static str> {
    match w {
        Which::Iter | Which::IterRef | Which::IntoIter => vec!["C13"],
        Which::Drain => vec!["C13", "C16"],
        Which::Sorted => vec!["C06", "C13"],
        Which::IterMut | Which::IterMutRef => vec!["C09"],
    }
}

fn mkviol(kind: Kind, w: Which, monitor: &'static str, what: &str, detail: String, mut props: Vec<&'static str>) -> Viol {
    // sorted iterator: ordering / extremeness failures are C06 (and the kind's order property);
    // exact-size failures of the non-mutable iterators are C13 only
    if w == Which::Sorted && (what == "len") {
        props = vec!["C06", "C13"];
    } else if w == Which::Sorted && what == "size_hint" {
        props = vec!["C13"];
    }
    if matches!(w, Which::IterMut | Which::IterMutRef) && (what == "dup" || what == "extra" || what == "early-none" || what == "missing") && !props.contains(&"C08") {
        props.push("C08");
    }
    Viol { monitor, op: format!("{:?}/{}", w, what), kind: kind.name(), detail, props }
}

fn take_pair(rest: &mut BTreeMap<u32, MEnt>, id: u32, payload: u64, ord: i64, tag: u64) -> Result<MEnt, Fail> {
    match rest.remove(&id) {
        None => Err(Fail { what: "dup", detail: format!("yielded item {} twice (or an item that is not stored)", id) }),
        Some(e) => {
            if e.ord != ord || e.tag != tag || e.payload != payload {
                return Err(Fail { what: "value", detail: format!("yielded item {} with priority {} payload {} but the queue holds priority {} payload {}", id, ord, payload, e.ord, e.payload) });
            }
            Ok(e)
        }
    }
}

/// Execute one case under the monitors. Returns violations (at most one per case).
pub fn run_case<Q: QueueApi>(c: &Case, cn: &mut Counters) -> Vec<Viol> {
    cn.cases += 1;
    *cn.by_which.entry(format!("{:?}", c.which)).or_insert(0) += 1;
    let res = catch_unwind(AssertUnwindSafe(|| run_case_inner::<Q>(c, cn)));
    match res {
        Ok(Ok(())) => vec![],
        Ok(Err(v)) => vec![v],
        Err(_) => {
            let msg = take_last_panic().unwrap_or_default();
            let mut props = which_props(c.which);
            props.push("C04");
            vec![Viol { monitor: "M-PANIC", op: format!("{:?}/script", c.which), kind: Q::KIND.name(), detail: format!("panic: {}", msg), props }]
        }
    }
}

fn run_case_inner<Q: QueueApi>(c: &Case, cn: &mut Counters) -> Result<(), Viol> {
    reset_episode();
    let mut st = build_checked::<Q>(&c.recipe)?;
    let n = st.m.len();
    let kind = Q::KIND;
    let w = c.which;
    let fail = |f: Fail| mkviol(kind, w, "M-ITER", f.what, f.detail, which_props(w));
    let mut rest = st.m.m.clone();
    match c.which {
        Which::Iter | Which::IterRef => {
            let mut it = if c.which == Which::Iter { st.q.iter() } else { st.q.iter_ref() };
            let rem = drive(
                n,
                &c.script,
                &mut |call| match call {
                    Call::Next => Reply::Item(it.next()),
                    Call::Back => match (&mut Wrap(&mut it)).p_next_back() {
                        Some(x) => Reply::Item(x),
                        None => Reply::NoBack,
                    },
                    Call::Len => Reply::Len(crate::probe_len!(&mut it)),
                    Call::Hint => Reply::Hint(it.size_hint()),
                },
                &mut |(i, p): (&Item, &Prio), _, _| take_pair(&mut rest, i.id(), i.payload, p.ord, p.tag).map(|_| ()),
                cn,
            )
            .map_err(fail)?;
            if rem != rest.len() {
                return Err(mkviol(kind, w, "M-ITER", "missing", "internal accounting".into(), which_props(w)));
            }
        }
        Which::IntoIter => {
            let q = std::mem::replace(&mut st.q, Q::q_new());
            let mut it = q.into_iter_q();
            drive(
                n,
                &c.script,
                &mut |call| match call {
                    Call::Next => Reply::Item(it.next()),
                    Call::Back => match (&mut Wrap(&mut it)).p_next_back() {
                        Some(x) => Reply::Item(x),
                        None => Reply::NoBack,
                    },
                    Call::Len => Reply::Len(crate::probe_len!(&mut it)),
                    Call::Hint => Reply::Hint(it.size_hint()),
                },
                &mut |(i, p): (Item, Prio), _, _| take_pair(&mut rest, i.id(), i.payload, p.ord, p.tag).map(|_| ()),
                cn,
            )
            .map_err(fail)?;
            drop(it);
            return ledger_zero(kind, w, cn);
        }
        Which::Sorted => {
            let q = std::mem::replace(&mut st.q, Q::q_new());
            let mut it = q.into_sorted_iter_q();
            let mut last_front: Option<i64> = None;
            let mut last_back: Option<i64> = None;
            let is_pq = kind == Kind::Pq;
            drive(
                n,
                &c.script,
                &mut |call| match call {
                    Call::Next => Reply::Item(it.next()),
                    Call::Back => match Q::so_next_back(&mut it) {
                        Some(x) => Reply::Item(x),
                        None => Reply::NoBack,
                    },
                    Call::Len => Reply::Len(Q::so_len(&it)),
                    Call::Hint => Reply::Hint(it.size_hint()),
                },
                &mut |(i, p): (Item, Prio), back, _| {
                    // the extreme of what remains, by the model
                    let want_max = is_pq || back;
                    let ext = if want_max { rest.values().map(|e| e.ord).max() } else { rest.values().map(|e| e.ord).min() };
                    take_pair(&mut rest, i.id(), i.payload, p.ord, p.tag)?;
                    if Some(p.ord) != ext {
                        return Err(Fail {
                            what: "not-extreme",
                            detail: format!("{} yielded priority {} but the {} of the remainder is {:?}", if back { "next_back" } else { "next" }, p.ord, if want_max { "maximum" } else { "minimum" }, ext),
                        });
                    }
                    let lastref = if back { &mut last_back } else { &mut last_front };
                    if let Some(l) = *lastref {
                        let bad = if want_max { p.ord > l } else { p.ord < l };
                        if bad {
                            return Err(Fail { what: "not-monotone", detail: format!("sorted consumption not monotone: {} then {}", l, p.ord) });
                        }
                    }
                    *lastref = Some(p.ord);
                    Ok(())
                },
                cn,
            )
            .map_err(|f| {
                let mut props = which_props(w);
                if f.what == "not-extreme" || f.what == "not-monotone" {
                    props = vec!["C06", if is_pq { "C01" } else { "C02" }];
                }
                mkviol(kind, w, "M-ITER", f.what, f.detail, props)
            })?;
            drop(it);
            return ledger_zero(kind, w, cn);
        }
        Which::Drain => {
            let live0 = ledger_live();
            let mut yielded = 0i64;
            {
                let mut it = st.q.drain();
                drive(
                    n,
                    &c.script,
                    &mut |call| match call {
                        Call::Next => Reply::Item(it.next()),
                        Call::Back => match (&mut Wrap(&mut it)).p_next_back() {
                            Some(x) => Reply::Item(x),
                            None => Reply::NoBack,
                        },
                        Call::Len => Reply::Len(crate::probe_len!(&mut it)),
                        Call::Hint => Reply::Hint(it.size_hint()),
                    },
                    &mut |(i, p): (Item, Prio), _, _| {
                        yielded += 1;
                        take_pair(&mut rest, i.id(), i.payload, p.ord, p.tag).map(|_| ())
                    },
                    cn,
                )
                .map_err(fail)?;
                if c.leak {
                    std::mem::forget(it);
                } else {
                    drop(it);
                }
            }
            // every element dropped exactly once: all of them, or (leaked iterator) the yielded ones
            cn.ledger_checks += 1;
            let expect = if c.leak { live0 - 2 * yielded } else { live0 - 2 * n as i64 };
            if ledger_double_drops() > 0 {
                return Err(mkviol(kind, w, "M-LEDGER", "double-drop", format!("{} values dropped twice by drain", ledger_double_drops()), vec!["C16", "C04"]));
            }
            if ledger_live() != expect {
                return Err(mkviol(kind, w, "M-LEDGER", "leak", format!("after drain (yielded {}, leaked iterator: {}) {} values are alive, expected {}", yielded, c.leak, ledger_live(), expect), vec!["C16"]));
            }
            st.m.m.clear();
            st.expected_leaks = 0;
            return after_emptied::<Q>(st, c, cn, "drain");
        }
        Which::IterMut | Which::IterMutRef => {
            let mut addrs: BTreeSet<(usize, usize)> = BTreeSet::new();
            let mut written: Vec<(u32, i64, u64)> = Vec::new();
            let mut yielded_idx = 0usize;
            let writes = c.writes.clone();
            let hold = c.hold;
            {
                let qref = &mut st.q;
                let mut it = if c.which == Which::IterMut { qref.iter_mut() } else { qref.iter_mut_ref() };
                let fused = Q::im_fused(&it);
                let _ = fused;
                let mut held: Vec<(&mut Item, &mut Prio)> = Vec::new();
                let alias_checks = std::cell::Cell::new(0u64);
                let r = drive(
                    n,
                    &c.script,
                    &mut |call| match call {
                        Call::Next => Reply::Item(it.next()),
                        Call::Back => match Q::im_next_back(&mut it) {
                            Some(x) => Reply::Item(x),
                            None => Reply::NoBack,
                        },
                        Call::Len => Reply::Len(Q::im_len(&it)),
                        Call::Hint => Reply::Hint(it.size_hint()),
                    },
                    &mut |(i, p): (&mut Item, &mut Prio), _, _| {
                        // M-ALIAS: addresses are compared before anything is written
                        let a = (i as *mut Item as usize, p as *mut Prio as usize);
                        alias_checks.set(alias_checks.get() + 1);
                        if !addrs.insert(a) || addrs.iter().filter(|x| x.0 == a.0 || x.1 == a.1).count() > 1 {
                            return Err(Fail { what: "alias", detail: format!("two yielded mutable references point to the same element (item id {})", unsafe { (*(a.0 as *const Item)).id() }) });
                        }
                        let id = i.id();
                        take_pair(&mut rest, id, i.payload, p.ord, p.tag)?;
                        if let Some(Some(o)) = writes.get(yielded_idx) {
                            p.ord = *o;
                            p.tag = fresh_tag();
                            written.push((id, p.ord, p.tag));
                        }
                        yielded_idx += 1;
                        if hold {
                            held.push((i, p));
                            // use every reference still held: a duplicate would be a conflicting access
                            for (hi, hp) in held.iter_mut() {
                                hi.payload = hi.payload.wrapping_add(0);
                                hp.tag = hp.tag.wrapping_add(0);
                            }
                        }
                        Ok(())
                    },
                    cn,
                );
                cn.alias_checks += alias_checks.get();
                drop(held);
                match r {
                    Err(f) => {
                        // the iterator misbehaved: do not run its destructor on a state we no longer understand
                        std::mem::forget(it);
                        let f2 = Fail { what: f.what, detail: f.detail };
                        let props = if f2.what == "alias" { vec!["C09", "C04"] } else { which_props(w) };
                        return Err(mkviol(kind, w, if f2.what == "alias" { "M-ALIAS" } else { "M-ITER" }, f2.what, f2.detail, props));
                    }
                    Ok(_) => {}
                }
                if c.leak {
                    std::mem::forget(it);
                } else {
                    drop(it);
                }
            }
            for (id, o, t) in &written {
                if let Some(e) = st.m.m.get_mut(id) {
                    e.ord = *o;
                    e.tag = *t;
                }
            }
            if c.leak && !written.is_empty() {
                st.order_suspended = true;
            }
            // C08: every written priority is in force and the order is restored once the guard is gone
            let universe: Vec<u32> = (0..(n as u32 + 2)).collect();
            st.post_check("iter_mut", &["C08"], &universe, true)?;
            if !st.order_suspended {
                st.exec(&Op::SortedCheck)?;
            }
        }
    }
    drop(st);
    ledger_zero(kind, w, cn)
}

fn ledger_zero(kind: Kind, w: Which, cn: &mut Counters) -> Result<(), Viol> {
    cn.ledger_checks += 1;
    if ledger_double_drops() > 0 {
        return Err(mkviol(kind, w, "M-LEDGER", "double-drop", format!("{} values dropped twice", ledger_double_drops()), vec!["C04"]));
    }
    if ledger_live() != 0 {
        let mut p = which_props(w);
        p.retain(|x| *x == "C16" || *x == "C13");
        return Err(mkviol(kind, w, "M-LEDGER", "leak", format!("{} values alive after everything was dropped", ledger_live()), p));
    }
    Ok(())
}

/// C16: the emptied queue is empty, reports nothing, has reset tables and behaves like a fresh one.
fn after_emptied<Q: QueueApi>(mut st: State<Q>, c: &Case, cn: &mut Counters, how: &'static str) -> Result<(), Viol> {
    let kind = Q::KIND;
    let w = c.which;
    let bad = |d: String| mkviol(kind, w, "M-EMPTIED", how, d, vec!["C16"]);
    if st.q.len() != 0 || !st.q.is_empty() {
        return Err(bad(format!("after {} the queue reports len {}", how, st.q.len())));
    }
    if st.q.iter().next().is_some() {
        return Err(bad(format!("after {} iter() still yields an element", how)));
    }
    for e in Q::ends() {
        if st.q.peek(*e).is_some() || st.q.peek_mut(*e).is_some() {
            return Err(bad(format!("after {} a peek returns an element", how)));
        }
    }
    let s = st.q.snapshot();
    if s.size != 0 || s.map_len != 0 || !s.heap.is_empty() || !s.qp.is_empty() {
        return Err(mkviol(kind, w, "M-TABLES", how, format!("after {}: size={} map_len={} heap.len={} qp.len={}", how, s.size, s.map_len, s.heap.len(), s.qp.len()), vec!["C16", "C04"]));
    }
    for e in Q::ends() {
        if st.q.pop(*e).is_some() {
            return Err(bad(format!("after {} a pop returns an element", how)));
        }
    }
    // twin: same continuation on a fresh queue
    let mut fresh = State::<Q>::construct(&Ctor::New).map_err(|v| v)?;
    let universe: Vec<u32> = (0..8).collect();
    for op in &c.after {
        cn.twin_ops += 1;
        // the fresh queue goes first: what goes wrong there too is not a matter of drain / clear
        let b = fresh.exec(op)?;
        fresh.post_check(op.name(), op.extra_props(), &universe, true)?;
        let a = st.exec(op).map_err(|mut v| {
            v.props.push("C16");
            v
        })?;
        st.post_check(op.name(), &["C16"], &universe, true)?;
        if a != b {
            return Err(bad(format!("{:?} on the emptied queue returned {:?} but {:?} on a fresh queue", op, a, b)));
        }
    }
    Ok(())
}

fn mk_iter<Q: QueueApi>(q: &mut Q) -> priority_queue::core_iterators::Iter<'_, Item, Prio> {
    q.iter()
}
fn mk_drain<Q: QueueApi>(q: &mut Q) -> priority_queue::core_iterators::Drain<'_, Item, Prio> {
    q.drain()
}
fn mk_into_iter<Q: QueueApi>(q: &mut Q) -> priority_queue::core_iterators::IntoIter<Item, Prio> {
    std::mem::replace(q, Q::q_new()).into_iter_q()
}

/// std adaptor length probes on a queue of n elements: (iterator, adaptor) x k
pub fn adaptor_probes<Q: QueueApi>(r: &Recipe, k: usize, cn: &mut Counters, sink: &mut Sink) {
    let kind = Q::KIND;
    let mut report = |name: &str, w: Which, res: std::thread::Result<(Option<usize>, usize)>, cn: &mut Counters| {
        cn.adaptor_probes += 1;
        let case = serde_json::json!({"mode":"iters","adaptor":name,"k":k,"kind":kind,"recipe":r});
        let props_of = |w: Which| -> Vec<&'static str> {
            match w {
                Which::IterMut | Which::IterMutRef => vec!["C09", "C04"],
                _ => vec!["C13", "C04"],
            }
        };
        match res {
            Ok((Some(l), want)) => {
                cn.adaptor_exact += 1;
                if l != want {
                    let v = Viol { monitor: "M-ADAPTOR", op: format!("{}.len()", name), kind: kind.name(), detail: format!("{}.len() = {} but it yields {}", name, l, want), props: props_of(w) };
                    sink.viol(&v.props, &v.sig(), &v.detail, case);
                }
            }
            Ok((None, _)) => {}
            Err(_) => {
                let msg = take_last_panic().unwrap_or_default();
                let v = Viol { monitor: "M-ADAPTOR", op: format!("{}.len()", name), kind: kind.name(), detail: format!("{}.len() panicked: {}", name, msg), props: props_of(w) };
                sink.viol(&v.props, &v.sig(), &v.detail, case);
            }
        }
    };
    macro_rules! core_probes {
        ($label:literal, $w:expr, $mk:expr) => {{
            let n = build::<Q>(r).m.len();
            let specs: Vec<(&str, usize)> = vec![("take(k)", n.min(k)), ("skip(k)", n.saturating_sub(k)), ("rev()", n), ("enumerate()", n), ("peekable()", n), ("zip(0..k)", n.min(k)), ("step_by(k+1)", (n + k) / (k + 1)), ("rev().take(k)", n.min(k)), ("chain(empty)", n), ("by_ref()", n)];
            for (ai, (an, want)) in specs.iter().enumerate() {
                let want = *want;
                let res = catch_unwind(AssertUnwindSafe(|| {
                    let mut st = build::<Q>(r);
                    let q = &mut st.q;
                    let _ = &q;
                    let l = match ai {
                        0 => crate::probe_len!($mk(q).take(k)),
                        1 => crate::probe_len!($mk(q).skip(k)),
                        2 => crate::probe_len!($mk(q).rev()),
                        3 => crate::probe_len!($mk(q).enumerate()),
                        4 => crate::probe_len!($mk(q).peekable()),
                        5 => crate::probe_len!($mk(q).zip(0..k)),
                        6 => crate::probe_len!($mk(q).step_by(k + 1)),
                        7 => crate::probe_len!($mk(q).rev().take(k)),
                        8 => {
                            // chain's size_hint adds both hints: must stay exact and not overflow
                            let it = $mk(q).chain(std::iter::empty());
                            let (lo, hi) = it.size_hint();
                            if Some(lo) == hi { Some(lo) } else { None }
                        }
                        _ => {
                            let mut it = $mk(q);
                            crate::probe_len!(it.by_ref())
                        }
                    };
                    (l, want)
                }));
                report(&format!("{}.{}", $label, an), $w, res, cn);
            }
        }};
    }
    core_probes!("iter()", Which::Iter, mk_iter::<Q>);
    core_probes!("drain()", Which::Drain, mk_drain::<Q>);
    core_probes!("into_iter()", Which::IntoIter, mk_into_iter::<Q>);
    for which in 0..6 {
        let res = catch_unwind(AssertUnwindSafe(|| {
            let mut st = build::<Q>(r);
            let (_, l, want) = Q::im_adaptor_len(&mut st.q, which, k);
            (l, want)
        }));
        let name = ["iter_mut().take(k)", "iter_mut().skip(k)", "iter_mut().enumerate()", "iter_mut().peekable()", "iter_mut().zip(0..k)", "iter_mut().step_by(k+1)"][which];
        report(name, Which::IterMut, res, cn);
        let res = catch_unwind(AssertUnwindSafe(|| {
            let st = build::<Q>(r);
            let (_, l, want) = Q::so_adaptor_lens(st.q, which, k);
            (l, want)
        }));
        let name = ["into_sorted_iter().take(k)", "into_sorted_iter().skip(k)", "into_sorted_iter().enumerate()", "into_sorted_iter().peekable()", "into_sorted_iter().zip(0..k)", "into_sorted_iter().step_by(k+1)"][which];
        report(name, Which::Sorted, res, cn);
    }
}

/// Consumers that reach the specialisable iterator methods (nth, nth_back, fold, rfold, try_fold,
/// last, and the len-based back ends of take/skip/step_by): the output of every consumer must be
/// what the same std adaptor yields over the reference sequence obtained with plain `next()`.
pub fn consumer_probes<Q: QueueApi>(r: &Recipe, k: usize, cn: &mut Counters, sink: &mut Sink) {
    let kind = Q::KIND;
    let n = build::<Q>(r).m.len();
    let judge = |label: &str, how: usize, props: Vec<&'static str>, exact_ids: bool, reference: &Vec<(u32, i64)>, res: std::thread::Result<Option<Vec<(u32, i64)>>>, cn: &mut Counters, sink: &mut Sink| {
        let cname = CONSUMERS[how];
        let case = serde_json::json!({"mode":"iters","consumer":how,"iterator":label,"k":k,"kind":kind,"recipe":r});
        match res {
            Ok(None) => {}
            Ok(Some(out)) => {
                cn.consumer_probes += 1;
                let expected: Vec<(u32, i64)> = crate::consume_de!(reference.clone().into_iter(), how, k).unwrap();
                let same = if exact_ids {
                    out == expected
                } else {
                    // among equal priorities any order is allowed: compare priorities, and require distinct stored items
                    let mut ids: Vec<u32> = out.iter().map(|x| x.0).collect();
                    ids.sort_unstable();
                    let l = ids.len();
                    ids.dedup();
                    out.iter().map(|x| x.1).collect::<Vec<_>>() == expected.iter().map(|x| x.1).collect::<Vec<_>>() && ids.len() == l && out.iter().all(|x| reference.contains(x))
                };
                if !same {
                    let v = Viol { monitor: "M-CONSUMER", op: format!("{}.{}", label, cname), kind: kind.name(), detail: format!("{}.{} with k={} on {} elements yields {:?} but plain next() implies {:?}", label, cname, k, n, out, expected), props };
                    sink.viol(&v.props, &v.sig(), &v.detail, case);
                }
            }
            Err(_) => {
                cn.consumer_probes += 1;
                let msg = take_last_panic().unwrap_or_default();
                let mut p2 = props.clone();
                p2.push("C04");
                let v = Viol { monitor: "M-CONSUMER", op: format!("{}.{}", label, cname), kind: kind.name(), detail: format!("panicked: {}", msg), props: p2 };
                sink.viol(&v.props, &v.sig(), &v.detail, case);
            }
        }
    };
    fn ids<'a>(v: Vec<(&'a Item, &'a Prio)>) -> Vec<(u32, i64)> {
        v.iter().map(|(i, p)| (i.id(), p.ord)).collect()
    }
    fn ids_owned(v: Vec<(Item, Prio)>) -> Vec<(u32, i64)> {
        v.iter().map(|(i, p)| (i.id(), p.ord)).collect()
    }
    // reference sequences through plain next()
    let ref_iter: Vec<(u32, i64)> = {
        let st = build::<Q>(r);
        let mut it = st.q.iter();
        let mut v = Vec::new();
        while let Some((i, p)) = it.next() {
            v.push((i.id(), p.ord));
        }
        v
    };
    let ref_sorted: Vec<(u32, i64)> = {
        let st = build::<Q>(r);
        let mut it = st.q.into_sorted_iter_q();
        let mut v = Vec::new();
        while let Some((i, p)) = it.next() {
            v.push((i.id(), p.ord));
        }
        v
    };
    for how in 0..CONSUMERS.len() {
        let res = catch_unwind(AssertUnwindSafe(|| {
            let st = build::<Q>(r);
            let r: Option<Vec<(&Item, &Prio)>> = crate::consume_de!(st.q.iter(), how, k);
            r.map(ids)
        }));
        judge("iter()", how, vec!["C13"], true, &ref_iter, res, cn, sink);
        let res = catch_unwind(AssertUnwindSafe(|| {
            let st = build::<Q>(r);
            let r: Option<Vec<(Item, Prio)>> = crate::consume_de!(st.q.into_iter_q(), how, k);
            r.map(ids_owned)
        }));
        judge("into_iter()", how, vec!["C13"], true, &ref_iter, res, cn, sink);
        let res = catch_unwind(AssertUnwindSafe(|| {
            let mut st = build::<Q>(r);
            let r: Option<Vec<(Item, Prio)>> = crate::consume_de!(st.q.drain(), how, k);
            r.map(ids_owned)
        }));
        judge("drain()", how, vec!["C13", "C16"], true, &ref_iter, res, cn, sink);
        // sorted iterator, two separate questions. (a) C13: does the consumer, which may reach
        // specialised methods (nth, nth_back, fold, ...), yield what the same consumer yields when
        // only next / next_back / size_hint reach the iterator? (b) C06: is that plain-protocol
        // output what a correctly sorted sequence implies?
        let plain = catch_unwind(AssertUnwindSafe(|| {
            let st = build::<Q>(r);
            Q::so_consume_plain(st.q, how, k)
        }));
        let res = catch_unwind(AssertUnwindSafe(|| {
            let st = build::<Q>(r);
            Q::so_consume(st.q, how, k)
        }));
        match (&plain, res) {
            (Ok(Some(pl)), Ok(Some(out))) => {
                cn.consumer_probes += 1;
                let mut ids: Vec<u32> = out.iter().map(|x| x.0).collect();
                ids.sort_unstable();
                let l = ids.len();
                ids.dedup();
                let same = out.iter().map(|x| x.1).collect::<Vec<_>>() == pl.iter().map(|x| x.1).collect::<Vec<_>>() && ids.len() == l && out.iter().all(|x| ref_sorted.contains(x));
                if !same {
                    let cname = CONSUMERS[how];
                    let v = Viol { monitor: "M-CONSUMER", op: format!("into_sorted_iter().{}", cname), kind: kind.name(), detail: format!("into_sorted_iter().{} with k={} on {} elements yields {:?} but over plain next()/next_back() calls the same consumer yields {:?}", cname, k, n, out, pl), props: vec!["C13", "C06"] };
                    sink.viol(&v.props, &v.sig(), &v.detail, serde_json::json!({"mode":"iters","consumer":how,"iterator":"into_sorted_iter()","k":k,"kind":kind,"recipe":r}));
                }
            }
            (_, r2 @ Err(_)) => judge("into_sorted_iter()", how, vec!["C13", "C06"], false, &ref_sorted, r2, cn, sink),
            _ => {}
        }
        judge("into_sorted_iter()", how, vec!["C06"], false, &ref_sorted, plain, cn, sink);
        let res = catch_unwind(AssertUnwindSafe(|| {
            let mut st = build::<Q>(r);
            Q::im_consume(&mut st.q, how, k)
        }));
        judge("iter_mut()", how, vec!["C09", "C08"], true, &ref_iter, res, cn, sink);
    }
}

fn all_scripts(max_len: usize) -> Vec<String> {
    let mut v = vec![String::new()];
    let mut cur = vec![String::new()];
    for _ in 0..max_len {
        let mut nxt = Vec::new();
        for s in &cur {
            for ch in ['N', 'B'] {
                let mut t = s.clone();
                t.push(ch);
                nxt.push(t);
            }
        }
        v.extend(nxt.iter().cloned());
        cur = nxt;
    }
    v
}

fn case_hash(c: &Case) -> u64 {
    let s = serde_json::to_string(&(c.kind, c.which, &c.recipe, &c.script, &c.writes, c.hold, c.leak)).unwrap();
    let mut h = 0xcbf29ce484222325u64;
    for b in s.bytes() {
        h = (h ^ b as u64).wrapping_mul(0x100000001b3);
    }
    h
}

fn exec_case<Q: QueueApi>(c: &Case, cn: &mut Counters) -> Vec<Viol> {
    run_case::<Q>(c, cn)
}
fn exec_adaptors<Q: QueueApi>(r: &Recipe, k: usize, cn: &mut Counters, sink: &mut Sink) {
    match catch_unwind(AssertUnwindSafe(|| build_checked::<Q>(r).map(|_| ()))) {
        Ok(Ok(())) => {}
        Ok(Err(v)) => {
            sink.viol(&v.props, &v.sig(), &v.detail, serde_json::json!({"mode":"iters","adaptor":0,"k":k,"kind":Q::KIND,"recipe":r,"precheck":true}));
            return;
        }
        Err(_) => {
            let _ = take_last_panic();
            return;
        }
    }
    adaptor_probes::<Q>(r, k, cn, sink);
    consumer_probes::<Q>(r, k, cn, sink)
}

fn emit(sink: &mut Sink, c: &Case, vs: Vec<Viol>) {
    for v in vs {
        sink.viol(&v.props, &v.sig(), &v.detail, serde_json::json!({"mode":"iters","case":c}));
    }
}

fn gen_after(rng: &mut Rng, len: usize) -> Vec<Op> {
    let mut prng = rng.clone();
    let prof = gen::profile("churn-single", &mut prng);
    let mut g = gen::Gen { rng, prof: &prof };
    let mut m = Model::default();
    let s = crate::snap::Snap::default();
    let mut ops = Vec::new();
    for _ in 0..len {
        let op = match g.rng.below(3) {
            0 => Op::Push { id: g.rng.below(6) as u32, ord: g.rng.range(0, 3) },
            _ => g.op::<PqOf<FixedState>>(&m, &s, false),
        };
        // keep a rough model so that the generator steers sensibly
        if let Op::Push { id, ord } = &op {
            m.m.insert(*id, MEnt { ord: *ord, tag: 0, payload: 0 });
        }
        ops.push(op);
    }
    ops
}

/// mode iters: systematic scripts on small queues + random scripts on larger ones.
///   which=Iter,Drain,...   max_n=6 (systematic bound)   random=200 (random cases)   hold=0|1
pub fn mode_iters(a: &Args) -> i32 {
    let seed = a.u("seed", 1);
    let shard = a.u("shard", 0);
    let nshards = a.u("nshards", 1);
    let max_n = a.u("max_n", 5) as usize;
    let extra_len = a.u("extra", 3) as usize;
    let nrandom = a.u("random", 200);
    let max_random_size = a.u("max_size", 300) as usize;
    let recipes_per_n = a.u("recipes", 3);
    let hold = a.u("hold", 0) == 1;
    let noleak = a.u("noleak", 0) == 1;
    let do_adaptors = a.u("adaptors", 1) == 1;
    let hasher = a.s("hasher", "fixed");
    let whichs: Vec<Which> = {
        let l = a.list("which", "Iter,IterRef,IntoIter,Drain,Sorted,IterMut,IterMutRef");
        ALL_WHICH.iter().copied().filter(|w| l.contains(&format!("{:?}", w))).collect()
    };
    let kinds = crate::cli::kinds_of(a);
    let mut journal = Journal::open(a);
    let mut sink = Sink::default();
    let mut cn = Counters::default();
    let mut samples: Vec<serde_json::Value> = Vec::new();
    let mut idx = 0u64;
    let run = |c: Case, cn: &mut Counters, sink: &mut Sink, journal: &mut Journal, samples: &mut Vec<serde_json::Value>| {
        if journal.enabled() {
            journal.line(&format!("EP {}", serde_json::json!({"mode":"iters","kind":c.kind.name()})));
            journal.line(&format!("CASE {}", serde_json::json!({"mode":"iters","what":format!("{:?}", c.which),"props": which_props(c.which).into_iter().chain(["C04"]).collect::<Vec<_>>(),"case":c})));
        }
        if cn.distinct.len() < 2_000_000 && !c.recipe.pushes.is_empty() && !c.script.is_empty() {
            cn.distinct.insert(case_hash(&c));
        }
        let vs = crate::dispatch!(c.kind, hasher.as_str(), exec_case, &c, cn);
        if samples.len() < 4 && c.script.len() >= 3 && c.recipe.pushes.len() >= 3 {
            samples.push(serde_json::to_value(&c).unwrap());
        }
        emit(sink, &c, vs);
        if journal.enabled() {
            journal.line("EPDONE");
        }
    };
    // systematic part
    for n in 0..=max_n {
        let scripts = all_scripts(n + extra_len);
        for rix in 0..recipes_per_n {
            let mut rng = Rng::derive(seed, 1000 + n as u64, rix);
            let rec = recipe(&mut rng, n, 1 + (rix as i64 % 3) * 2);
            for &kind in &kinds {
                if do_adaptors && idx % nshards == shard {
                    for k in [0usize, 1, 2, n, n + 3] {
                        crate::dispatch!(kind, hasher.as_str(), exec_adaptors, &rec, k, &mut cn, &mut sink);
                    }
                }
                idx += 1;
                for &w in &whichs {
                    for s in &scripts {
                        idx += 1;
                        if idx % nshards != shard {
                            continue;
                        }
                        let is_mut = matches!(w, Which::IterMut | Which::IterMutRef);
                        let writes: Vec<Option<i64>> = if is_mut { (0..s.len()).map(|j| if (j + rix as usize) % 2 == 0 { Some(rng.range(0, 4)) } else { None }).collect() } else { vec![] };
                        let leak = !noleak && (w == Which::Drain || is_mut) && (s.len() + rix as usize) % 5 == 0;
                        let after = if w == Which::Drain && s.len() % 4 == 0 { gen_after(&mut rng, 10) } else { vec![] };
                        let c = Case { kind, which: w, recipe: rec.clone(), script: s.clone(), writes, hold: hold || (is_mut && s.len() % 2 == 1), leak, after };
                        run(c, &mut cn, &mut sink, &mut journal, &mut samples);
                    }
                }
            }
        }
    }
    // random part
    for i in 0..nrandom {
        let mut rng = Rng::derive(seed, 77 + shard, i);
        let n = if rng.chance(1, 3) { rng.below(12) } else { rng.below(max_random_size + 1) };
        let np = *rng.pick(&[1i64, 2, 5, 1000]);
        let rec = recipe(&mut rng, n, np);
        let kind = kinds[rng.below(kinds.len())];
        let w = whichs[rng.below(whichs.len())];
        let len = match rng.below(4) {
            0 => rng.below(4),
            1 => n + 3,
            _ => rng.below(n + 4),
        };
        let bias = rng.below(5);
        let script: String = (0..len).map(|_| if rng.below(4) < bias { 'B' } else { 'N' }).collect();
        let is_mut = matches!(w, Which::IterMut | Which::IterMutRef);
        let writes: Vec<Option<i64>> = if is_mut { (0..len).map(|_| if rng.chance(1, 2) { Some(rng.range(0, 1000)) } else { None }).collect() } else { vec![] };
        let leak = !noleak && (w == Which::Drain || is_mut) && rng.chance(1, 6);
        let after = if w == Which::Drain { gen_after(&mut rng, 12) } else { vec![] };
        if do_adaptors && i % 8 == 0 {
            let k = rng.below(n + 3);
            crate::dispatch!(kind, hasher.as_str(), exec_adaptors, &rec, k, &mut cn, &mut sink);
        }
        let c = Case { kind, which: w, recipe: rec, script, writes, hold: hold || rng.chance(1, 2), leak, after };
        run(c, &mut cn, &mut sink, &mut journal, &mut samples);
    }
    sink.finish_counts(
        "iters",
        cn.cases + cn.adaptor_probes + cn.consumer_probes,
        cn.distinct.len() as u64,
        serde_json::json!({
            "iter_cases": cn.cases, "iter_calls": cn.calls, "len_checks": cn.len_checks, "size_hint_checks": cn.hint_checks,
            "alias_checks": cn.alias_checks, "adaptor_probes": cn.adaptor_probes, "adaptor_probes_on_exact_types": cn.adaptor_exact, "consumer_probes": cn.consumer_probes,
            "twin_ops": cn.twin_ops, "ledger_checks": cn.ledger_checks, "cases_by_iterator": cn.by_which,
            "samples": samples,
        }),
    );
    0
}

pub fn replay(rp: &serde_json::Value, _a: &Args, sink: &mut Sink, journal: &mut Journal) -> i32 {
    let mut cn = Counters::default();
    let case = rp.get("case").filter(|c| c.get("script").is_some()).or_else(|| rp.get("case").and_then(|c| c.get("case")));
    if let Some(case) = case {
        let c: Case = serde_json::from_value(case.clone()).expect("case");
        journal.line(&format!("CASE {}", serde_json::json!({"mode":"iters","what":format!("{:?}", c.which),"props": which_props(c.which).into_iter().chain(["C04"]).collect::<Vec<_>>(),"case":c})));
        let vs = crate::dispatch!(c.kind, "fixed", exec_case, &c, &mut cn);
        emit(sink, &c, vs);
    } else if rp.get("adaptor").is_some() || rp.get("consumer").is_some() {
        let r: Recipe = serde_json::from_value(rp["recipe"].clone()).expect("recipe");
        let kind: Kind = serde_json::from_value(rp["kind"].clone()).expect("kind");
        let k = rp["k"].as_u64().unwrap_or(1) as usize;
        crate::dispatch!(kind, "fixed", exec_adaptors, &r, k, &mut cn, sink);
    }
    0
}
