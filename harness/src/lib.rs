pub mod alloc_ctl;
pub mod api;
pub mod bfs;
pub mod bulk;
pub mod cli;
pub mod cost;
pub mod faults;
pub mod gen;
pub mod hist;
pub mod iters;
pub mod model;
pub mod ops;
pub mod rng;
pub mod serde_chk;
pub mod snap;
pub mod twins;
pub mod types;

/// replay of the non-history modes (iterator scripts, crash points, ...)
pub fn replay_other(mode: &str, rp: &serde_json::Value, a: &cli::Args, sink: &mut cli::Sink, journal: &mut cli::Journal) -> i32 {
    let _ = &journal;
    match mode {
        "iters" => iters::replay(rp, a, sink, journal),
        "serde" => serde_chk::replay(rp, sink),
        "faults" => faults::replay(rp, sink, journal),
        "eq" => twins::replay_eq(rp, sink),
        "cap" => twins::replay_cap(rp, sink, journal),
        _ => {
            eprintln!("replay: unknown mode {}", mode);
            2
        }
    }
}

pub fn worker_main() {
    use std::io::Write;
    let args: Vec<String> = std::env::args().skip(1).collect();
    if args.is_empty() {
        eprintln!("usage: worker <mode> key=value ...");
        std::process::exit(2);
    }
    let mode = args[0].clone();
    let mut kv = std::collections::BTreeMap::new();
    for a in &args[1..] {
        if let Some((k, v)) = a.split_once('=') {
            kv.insert(k.to_string(), v.to_string());
        }
    }
    types::install_panic_hook();
    let a = cli::Args { kv };
    let code = match mode.as_str() {
        "hist" => cli::mode_hist(&a),
        "replay" => cli::mode_replay(&a),
        "bfs" => bfs::mode_bfs(&a),
        "iters" => iters::mode_iters(&a),
        "bulk" => bulk::mode_bulk(&a),
        "serde" => serde_chk::mode_serde(&a),
        "faults" => faults::mode_faults(&a),
        "cost" => cost::mode_cost(&a),
        "eq" => twins::mode_eq(&a),
        "cap" => twins::mode_cap(&a),
        "hashers" => twins::mode_hashers(&a),
        "strkeys" => twins::mode_strkeys(&a),
        "costprobe" => cost::mode_costprobe(&a),
        other => {
            eprintln!("unknown mode {}", other);
            2
        }
    };
    std::io::stdout().flush().ok();
    std::process::exit(code);
}
