pub mod api;
pub mod cli;
pub mod gen;
pub mod hist;
pub mod model;
pub mod ops;
pub mod rng;
pub mod snap;
pub mod types;

/// replay of the non-history modes (iterator scripts, crash points, ...)
pub fn replay_other(mode: &str, _rp: &serde_json::Value, _a: &cli::Args, _sink: &mut cli::Sink) -> i32 {
    eprintln!("replay: unknown mode {}", mode);
    2
}
