pub mod api;
pub mod bfs;
pub mod cli;
pub mod gen;
pub mod hist;
pub mod iters;
pub mod model;
pub mod ops;
pub mod rng;
pub mod snap;
pub mod types;

/// replay of the non-history modes (iterator scripts, crash points, ...)
pub fn replay_other(mode: &str, rp: &serde_json::Value, a: &cli::Args, sink: &mut cli::Sink, journal: &mut cli::Journal) -> i32 {
    let _ = &journal;
    match mode {
        "iters" => iters::replay(rp, a, sink, journal),
        _ => {
            eprintln!("replay: unknown mode {}", mode);
            2
        }
    }
}
