//! Sequential reference model: a map from item id to (priority, which priority object, payload).

use crate::api::End;
use crate::snap::Snap;
use std::collections::BTreeMap;

#[derive(Clone, Copy, Debug, PartialEq, Eq)]
pub struct MEnt {
    pub ord: i64,
    pub tag: u64,
    pub payload: u64,
}

#[derive(Clone, Debug, Default)]
pub struct Model {
    pub m: BTreeMap<u32, MEnt>,
}

impl Model {
    pub fn len(&self) -> usize {
        self.m.len()
    }
    pub fn get(&self, id: u32) -> Option<&MEnt> {
        self.m.get(&id)
    }
    pub fn extreme(&self, e: End) -> Option<i64> {
        match e {
            End::Min => self.m.values().map(|x| x.ord).min(),
            End::Max => self.m.values().map(|x| x.ord).max(),
        }
    }
    pub fn from_snap(s: &Snap) -> Model {
        let mut m = BTreeMap::new();
        for e in &s.ent {
            m.insert(e.0, MEnt { ord: e.2, tag: e.3, payload: e.1 });
        }
        Model { m }
    }
    /// sorted (id, ord) pairs
    pub fn pairs(&self) -> Vec<(u32, i64)> {
        self.m.iter().map(|(k, v)| (*k, v.ord)).collect()
    }
    pub fn ids(&self) -> Vec<u32> {
        self.m.keys().copied().collect()
    }
}
