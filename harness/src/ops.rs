//! Operation alphabet, lock-step executor (real queue + model) and the per-step monitors
//! M-RET, M-PEEK, M-CONTENT, M-TABLES, M-ORDER, M-DRAIN.

use crate::api::*;
use crate::model::*;
use crate::snap::Snap;
use crate::types::*;
use serde::{Deserialize, Serialize};
use std::collections::{BTreeMap, BTreeSet};

// ---------------------------------------------------------------------------------------------
// predicates / rewrites as data (so that a history is an explicit, replayable value)

#[derive(Clone, Debug, Serialize, Deserialize, PartialEq)]
pub enum Pred {
    All,
    Nothing,
    Ids(Vec<u32>),
    /// keep iff bit (id % m) of mask is set
    IdMod { m: u32, mask: u64 },
    OrdBelow(i64),
    OrdAtLeast(i64),
}
impl Pred {
    pub fn keep(&self, id: u32, ord: i64) -> bool {
        match self {
            Pred::All => true,
            Pred::Nothing => false,
            Pred::Ids(v) => v.contains(&id),
            Pred::IdMod { m, mask } => (mask >> (id % m)) & 1 == 1,
            Pred::OrdBelow(t) => ord < *t,
            Pred::OrdAtLeast(t) => ord >= *t,
        }
    }
}

#[derive(Clone, Debug, Serialize, Deserialize, PartialEq)]
pub enum Rewrite {
    Keep,
    Const(i64),
    Negate,
    /// ord := (id * mul + add) mod m
    Affine { mul: i64, add: i64, m: i64 },
    /// ord := ord + d for ids with (id % 2 == parity)
    ShiftHalf { d: i64, parity: u32 },
    Map(Vec<(u32, i64)>),
}
impl Rewrite {
    pub fn apply(&self, id: u32, ord: i64) -> Option<i64> {
        match self {
            Rewrite::Keep => None,
            Rewrite::Const(c) => Some(*c),
            Rewrite::Negate => Some(ord.checked_neg().unwrap_or(i64::MAX)),
            Rewrite::Affine { mul, add, m } => Some((id as i64 * mul + add).rem_euclid(*m)),
            Rewrite::ShiftHalf { d, parity } => {
                if id % 2 == *parity {
                    Some(ord.saturating_add(*d))
                } else {
                    None
                }
            }
            Rewrite::Map(v) => v.iter().find(|(i, _)| *i == id).map(|(_, o)| *o),
        }
    }
}

#[derive(Clone, Debug, Serialize, Deserialize, PartialEq)]
pub enum Ctor {
    New,
    WithCapacity(usize),
    Default,
    WithDefaultHasher,
    WithCapacityAndDefaultHasher(usize),
    WithHasher,
    WithCapacityAndHasher(usize),
    FromVec(Vec<(u32, i64)>),
    FromIter(Vec<(u32, i64)>, Hint),
    /// build the *other* kind by pushes, then convert
    FromOther(Vec<(u32, i64)>),
}

#[derive(Clone, Debug, Serialize, Deserialize, PartialEq)]
pub enum Op {
    Push { id: u32, ord: i64 },
    PushInc { id: u32, ord: i64 },
    PushDec { id: u32, ord: i64 },
    Change { id: u32, ord: i64, k: bool },
    ChangeBy { id: u32, ord: i64, k: bool },
    Remove { id: u32, k: bool },
    Pop { end: End },
    PopIf { end: End, accept: bool, rewrite: Option<i64>, touch: bool },
    Peek { end: End },
    PeekMut { end: End, touch: bool },
    Get { id: u32, k: bool },
    GetPrio { id: u32, k: bool },
    GetMut { id: u32, k: bool, touch: bool },
    Observe,
    IterMut {
        n: usize,
        writes: Vec<Option<i64>>,
        touch: bool,
        leak: bool,
        via_ref: bool,
        /// after the n front calls: this many next_back calls (where the iterator offers them)
        #[serde(default)]
        back: usize,
    },
    Retain { pred: Pred },
    RetainMut { pred: Pred, rewrite: Rewrite },
    Extend { pairs: Vec<(u32, i64)>, hint: Hint },
    Append { pairs: Vec<(u32, i64)>, cap: usize },
    Convert,
    CloneSwap,
    /// `dst.clone_from(&queue)` into a queue that already holds `pre`, then continue with dst
    CloneFrom {
        pre: Vec<(u32, i64)>,
        /// true: the queue under test is the DESTINATION (`queue.clone_from(&other)`, other built from `pre`)
        #[serde(default)]
        into_self: bool,
    },
    Drain { front: usize, back: usize, leak: bool },
    Clear,
    Reserve(usize),
    ReserveExact(usize),
    TryReserve(usize),
    TryReserveExact(usize),
    Shrink,
    SortedCheck,
    SortedItemsCheck { desc: bool },
    IntoIterCheck,
    IntoVecCheck,
    EqCheck,
    Serde { via_other: bool },
}

impl Op {
    pub fn name(&self) -> &'static str {
        match self {
            Op::Push { .. } => "push",
            Op::PushInc { .. } => "push_increase",
            Op::PushDec { .. } => "push_decrease",
            Op::Change { .. } => "change_priority",
            Op::ChangeBy { .. } => "change_priority_by",
            Op::Remove { .. } => "remove",
            Op::Pop { end: End::Min } => "pop_min",
            Op::Pop { end: End::Max } => "pop_max",
            Op::PopIf { end: End::Min, .. } => "pop_min_if",
            Op::PopIf { end: End::Max, .. } => "pop_max_if",
            Op::Peek { end: End::Min } => "peek_min",
            Op::Peek { end: End::Max } => "peek_max",
            Op::PeekMut { end: End::Min, .. } => "peek_min_mut",
            Op::PeekMut { end: End::Max, .. } => "peek_max_mut",
            Op::Get { .. } => "get",
            Op::GetPrio { .. } => "get_priority",
            Op::GetMut { .. } => "get_mut",
            Op::Observe => "observe",
            Op::IterMut { .. } => "iter_mut",
            Op::Retain { .. } => "retain",
            Op::RetainMut { .. } => "retain_mut",
            Op::Extend { .. } => "extend",
            Op::Append { .. } => "append",
            Op::Convert => "convert",
            Op::CloneSwap => "clone",
            Op::CloneFrom { .. } => "clone_from",
            Op::Drain { .. } => "drain",
            Op::Clear => "clear",
            Op::Reserve(_) => "reserve",
            Op::ReserveExact(_) => "reserve_exact",
            Op::TryReserve(_) => "try_reserve",
            Op::TryReserveExact(_) => "try_reserve_exact",
            Op::Shrink => "shrink_to_fit",
            Op::SortedCheck => "into_sorted_iter",
            Op::SortedItemsCheck { .. } => "into_sorted_vec",
            Op::IntoIterCheck => "into_iter",
            Op::IntoVecCheck => "into_vec",
            Op::EqCheck => "eq",
            Op::Serde { .. } => "serde",
        }
    }
    /// properties (beyond the monitor's own) that a failure observed during / right after this
    /// operation contradicts
    pub fn extra_props(&self) -> &'static [&'static str] {
        match self {
            Op::PushInc { .. } | Op::PushDec { .. } => &["C11"],
            Op::PopIf { .. } => &["C08"],
            Op::IterMut { .. } => &["C08"],
            Op::Retain { .. } | Op::RetainMut { .. } => &["C08"],
            Op::Extend { .. } | Op::Append { .. } | Op::Convert => &["C07"],
            Op::CloneSwap | Op::CloneFrom { .. } | Op::EqCheck => &["C14"],
            Op::Drain { .. } | Op::Clear => &["C16"],
            Op::Reserve(_) | Op::ReserveExact(_) | Op::TryReserve(_) | Op::TryReserveExact(_) | Op::Shrink => &["C17"],
            Op::SortedCheck | Op::SortedItemsCheck { .. } => &["C06"],
            Op::IntoIterCheck | Op::IntoVecCheck | Op::Observe => &["C13"],
            Op::Serde { .. } => &["C15"],
            _ => &[],
        }
    }
}
impl Ctor {
    pub fn extra_props(&self) -> &'static [&'static str] {
        match self {
            Ctor::FromVec(_) | Ctor::FromIter(..) | Ctor::FromOther(_) => &["C07"],
            _ => &[],
        }
    }
    pub fn name(&self) -> &'static str {
        match self {
            Ctor::New => "new",
            Ctor::WithCapacity(_) => "with_capacity",
            Ctor::Default => "default",
            Ctor::WithDefaultHasher => "with_default_hasher",
            Ctor::WithCapacityAndDefaultHasher(_) => "with_capacity_and_default_hasher",
            Ctor::WithHasher => "with_hasher",
            Ctor::WithCapacityAndHasher(_) => "with_capacity_and_hasher",
            Ctor::FromVec(_) => "from_vec",
            Ctor::FromIter(..) => "from_iter",
            Ctor::FromOther(_) => "from_other_kind",
        }
    }
}

// ---------------------------------------------------------------------------------------------

/// What a monitor saw. `props` = the properties whose statement the observation contradicts.
#[derive(Clone, Debug, Serialize)]
pub struct Viol {
    pub monitor: &'static str,
    pub op: String,
    pub kind: &'static str,
    pub detail: String,
    pub props: Vec<&'static str>,
}
impl Viol {
    /// signature: names the failing construct, not the input
    pub fn sig(&self) -> String {
        format!("{}/{}/{}/{}", self.kind, self.op, self.monitor, short(&self.detail))
    }
}
fn short(s: &str) -> String {
    // keep the non-numeric skeleton of the message so that signatures are stable across inputs
    let mut out = String::new();
    let mut last_digit = false;
    for ch in s.chars().take(160) {
        if ch == '\n' || ch == '@' {
            break;
        }
        if ch.is_ascii_digit() {
            if !last_digit {
                out.push('#');
            }
            last_digit = true;
        } else {
            last_digit = false;
            if ch == '-' {
                continue;
            }
            out.push(if ch == ' ' || ch == '/' { '_' } else { ch });
        }
    }
    out.truncate(80);
    out
}

/// Compact observable result of one operation (tags / payloads excluded): used for twin and
/// cross-hasher trace comparison.
#[derive(Clone, Debug, PartialEq, Serialize)]
pub enum Ret {
    Unit,
    None,
    Bool(bool),
    Ord(i64),
    Pair(u32, i64),
    Len(usize),
    Multi(Vec<(u32, i64)>),
    Seq(Vec<(u32, i64)>),
    ResOk,
    ResErr,
}

pub struct State<Q: QueueApi> {
    pub q: Q,
    pub m: Model,
    /// a leaked iter_mut guard after priority writes: order documented as unspecified until the
    /// next rebuild
    pub order_suspended: bool,
    /// tokens deliberately leaked by the client (leaked drain)
    pub expected_leaks: i64,
    pub used_drain_or_clear: bool,
    /// a table inconsistency has already been reported for this queue: keep observing the
    /// consequences for contents and return values, without re-judging tables and order
    pub tables_broken: bool,
}

fn ord_of_kind(k: Kind) -> &'static str {
    match k {
        Kind::Pq => "C01",
        Kind::Dpq => "C02",
    }
}

pub struct Mon<'a> {
    pub kind: Kind,
    pub opname: &'a str,
    pub extra: &'a [&'static str],
}
impl<'a> Mon<'a> {
    fn mk(&self, monitor: &'static str, base: &[&'static str], detail: String) -> Viol {
        let mut props: Vec<&'static str> = base.to_vec();
        for p in self.extra {
            if !props.contains(p) {
                props.push(p);
            }
        }
        Viol { monitor, op: self.opname.to_string(), kind: self.kind.name(), detail, props }
    }
    pub fn extreme(&self, d: String) -> Viol {
        self.mk("M-RET-extreme", &[ord_of_kind(self.kind)], d)
    }
    pub fn ret(&self, d: String) -> Viol {
        self.mk("M-RET", &["C03"], d)
    }
    pub fn content(&self, d: String) -> Viol {
        self.mk("M-CONTENT", &["C03"], d)
    }
    pub fn payload(&self, d: String) -> Viol {
        self.mk("M-PAYLOAD", &["C12"], d)
    }
    pub fn tag(&self, d: String) -> Viol {
        self.mk("M-TAG", &["C03"], d)
    }
    pub fn tables(&self, d: String) -> Viol {
        self.mk("M-TABLES", &["C04"], d)
    }
    pub fn order(&self, d: String) -> Viol {
        self.mk("M-ORDER", &[ord_of_kind(self.kind)], d)
    }
    pub fn sorted(&self, d: String) -> Viol {
        self.mk("M-DRAIN", &[ord_of_kind(self.kind), "C06"], d)
    }
    pub fn predlog(&self, d: String) -> Viol {
        self.mk("M-PREDLOG", &["C08"], d)
    }
    pub fn popif_pair(&self, d: String) -> Viol {
        self.mk("M-RET-popif", &["C08", "C03"], d)
    }
    pub fn cap(&self, d: String) -> Viol {
        self.mk("M-CAP", &["C17"], d)
    }
    pub fn other(&self, monitor: &'static str, d: String) -> Viol {
        self.mk(monitor, &[], d)
    }
}

type R<T> = Result<T, Viol>;

fn check_pair(mon: &Mon, what: &str, got: (&Item, &Prio), id: u32, e: &MEnt) -> R<()> {
    if got.0.id() != id {
        return Err(mon.ret(format!("{}: item id {} expected {}", what, got.0.id(), id)));
    }
    if got.1.ord != e.ord {
        return Err(mon.ret(format!("{}: id {} priority {} expected {}", what, id, got.1.ord, e.ord)));
    }
    if got.1.tag != e.tag {
        return Err(mon.tag(format!("{}: id {} priority object tag {} expected {} (ord equal)", what, id, got.1.tag, e.tag)));
    }
    if got.0.payload != e.payload {
        return Err(mon.payload(format!("{}: id {} payload {} expected {}", what, id, got.0.payload, e.payload)));
    }
    Ok(())
}

impl<Q: QueueApi> State<Q> {
    pub fn construct(c: &Ctor) -> R<State<Q>> {
        let cname = c.name();
        let mon = Mon { kind: Q::KIND, opname: cname, extra: c.extra_props() };
        let mut m = Model::default();
        let q = match c {
            Ctor::New => Q::q_new(),
            Ctor::WithCapacity(n) => Q::q_with_capacity(*n),
            Ctor::Default => Q::q_default(),
            Ctor::WithDefaultHasher => Q::q_with_default_hasher(),
            Ctor::WithCapacityAndDefaultHasher(n) => Q::q_with_capacity_and_default_hasher(*n),
            Ctor::WithHasher => Q::q_with_hasher(Q::H::default()),
            Ctor::WithCapacityAndHasher(n) => Q::q_with_capacity_and_hasher(*n, Q::H::default()),
            Ctor::FromVec(pairs) => {
                // first priority for each distinct item wins
                let mut v = Vec::new();
                for &(id, ord) in pairs {
                    let it = Item::new(id);
                    let p = Prio::new(ord);
                    m.m.entry(id).or_insert(MEnt { ord, tag: p.tag, payload: it.payload });
                    v.push((it, p));
                }
                Q::q_from_vec(v)
            }
            Ctor::FromIter(pairs, hint) => {
                let mut v = Vec::new();
                let mut offered: BTreeMap<u32, Vec<u64>> = BTreeMap::new();
                for &(id, ord) in pairs {
                    let it = Item::new(id);
                    let p = Prio::new(ord);
                    offered.entry(id).or_default().push(it.payload);
                    let pay = m.m.get(&id).map(|e| e.payload).unwrap_or(it.payload);
                    m.m.insert(id, MEnt { ord, tag: p.tag, payload: pay });
                    v.push((it, p));
                }
                let q = Q::q_from_iter(HintIter::new(v, *hint));
                adopt_payloads(&q, &mut m, &offered, &mon)?;
                q
            }
            Ctor::FromOther(pairs) => {
                let mut o = <Q::Other as QueueApi>::q_new();
                for &(id, ord) in pairs {
                    let it = Item::new(id);
                    let p = Prio::new(ord);
                    let (tag, pay) = (p.tag, it.payload);
                    o.push(it, p);
                    match m.m.get_mut(&id) {
                        Some(e) => {
                            e.ord = ord;
                            e.tag = tag;
                        }
                        None => {
                            m.m.insert(id, MEnt { ord, tag, payload: pay });
                        }
                    }
                }
                source_ok(&o, &m)?;
                Q::q_from_other(o)
            }
        };
        if let Ctor::WithCapacity(n) | Ctor::WithCapacityAndDefaultHasher(n) | Ctor::WithCapacityAndHasher(n) = c {
            if q.capacity() < *n {
                let mon = Mon { kind: Q::KIND, opname: cname, extra: &["C17"] };
                return Err(mon.cap(format!("capacity {} < requested {}", q.capacity(), n)));
            }
        }
        Ok(State { q, m, order_suspended: false, expected_leaks: 0, used_drain_or_clear: false, tables_broken: false })
    }

    /// Execute one operation on the real queue and on the model; check every return value.
    pub fn exec(&mut self, op: &Op) -> R<Ret> {
        let opname = op.name();
        let mon = Mon { kind: Q::KIND, opname, extra: op.extra_props() };
        let mon = &mon;
        match op {
            Op::Push { id, ord } => {
                let it = Item::new(*id);
                let p = Prio::new(*ord);
                let (tag, pay) = (p.tag, it.payload);
                let r = self.q.push(it, p);
                match self.m.m.get_mut(id) {
                    Some(e) => {
                        let old = *e;
                        e.ord = *ord;
                        e.tag = tag;
                        match r {
                            Some(rp) => {
                                if rp.ord != old.ord {
                                    return Err(mon.ret(format!("push(present {}) returned priority {} expected previous {}", id, rp.ord, old.ord)));
                                }
                                if rp.tag != old.tag {
                                    return Err(mon.tag(format!("push(present {}) returned priority object tag {} expected previous {}", id, rp.tag, old.tag)));
                                }
                                Ok(Ret::Ord(rp.ord))
                            }
                            None => Err(mon.ret(format!("push(present {}) returned None", id))),
                        }
                    }
                    None => {
                        self.m.m.insert(*id, MEnt { ord: *ord, tag, payload: pay });
                        match r {
                            None => Ok(Ret::None),
                            Some(rp) => Err(mon.ret(format!("push(absent {}) returned Some({})", id, rp.ord))),
                        }
                    }
                }
            }
            Op::PushInc { id, ord } | Op::PushDec { id, ord } => {
                let inc = matches!(op, Op::PushInc { .. });
                let it = Item::new(*id);
                let p = Prio::new(*ord);
                let (tag, pay) = (p.tag, it.payload);
                let r = if inc { self.q.push_increase(it, p) } else { self.q.push_decrease(it, p) };
                match self.m.m.get_mut(id) {
                    None => {
                        self.m.m.insert(*id, MEnt { ord: *ord, tag, payload: pay });
                        match r {
                            None => Ok(Ret::None),
                            Some(rp) => Err(mon.ret(format!("{}(absent {}) returned Some({})", opname, id, rp.ord))),
                        }
                    }
                    Some(e) => {
                        let better = if inc { *ord > e.ord } else { *ord < e.ord };
                        let old = *e;
                        if better {
                            e.ord = *ord;
                            e.tag = tag;
                        }
                        match r {
                            None => Err(mon.ret(format!("{}(present {}) returned None", opname, id))),
                            Some(rp) => {
                                if better {
                                    if rp.ord != old.ord || rp.tag != old.tag {
                                        return Err(mon.ret(format!(
                                            "{}({} stored {} offered {}): must return the old priority (ord {} tag {}), got ord {} tag {}",
                                            opname, id, old.ord, ord, old.ord, old.tag, rp.ord, rp.tag
                                        )));
                                    }
                                } else if rp.ord != *ord || rp.tag != tag {
                                    return Err(mon.ret(format!(
                                        "{}({} stored {} offered {}): not strictly better, must return the offered priority (ord {} tag {}), got ord {} tag {}",
                                        opname, id, old.ord, ord, ord, tag, rp.ord, rp.tag
                                    )));
                                }
                                Ok(Ret::Ord(rp.ord))
                            }
                        }
                    }
                }
            }
            Op::Change { id, ord, k } => {
                let p = Prio::new(*ord);
                let tag = p.tag;
                let r = if *k {
                    self.q.change_priority_k(&Key(*id), p)
                } else {
                    let probe = Item::new(*id);
                    self.q.change_priority(&probe, p)
                };
                match self.m.m.get_mut(id) {
                    Some(e) => {
                        let old = *e;
                        e.ord = *ord;
                        e.tag = tag;
                        match r {
                            Some(rp) if rp.ord == old.ord && rp.tag == old.tag => Ok(Ret::Ord(rp.ord)),
                            Some(rp) => Err(mon.ret(format!("change_priority({}) returned ord {} tag {} expected old ord {} tag {}", id, rp.ord, rp.tag, old.ord, old.tag))),
                            None => Err(mon.ret(format!("change_priority(present {}) returned None", id))),
                        }
                    }
                    None => match r {
                        None => Ok(Ret::None),
                        Some(rp) => Err(mon.ret(format!("change_priority(absent {}) returned Some({})", id, rp.ord))),
                    },
                }
            }
            Op::ChangeBy { id, ord, k } => {
                let tag = fresh_tag();
                let mut seen: Vec<(i64, u64)> = Vec::new();
                let setter = |p: &mut Prio| {
                    cb(Cb::Pred);
                    seen.push((p.ord, p.tag));
                    p.ord = *ord;
                    p.tag = tag;
                };
                let r = if *k {
                    self.q.change_priority_by_k(&Key(*id), setter)
                } else {
                    let probe = Item::new(*id);
                    self.q.change_priority_by(&probe, setter)
                };
                match self.m.m.get_mut(id) {
                    Some(e) => {
                        let old = *e;
                        e.ord = *ord;
                        e.tag = tag;
                        if !r {
                            return Err(mon.ret(format!("change_priority_by(present {}) returned false", id)));
                        }
                        if seen.len() != 1 || seen[0] != (old.ord, old.tag) {
                            return Err(mon.ret(format!("change_priority_by({}) setter saw {:?} expected exactly [({}, {})]", id, seen, old.ord, old.tag)));
                        }
                        Ok(Ret::Bool(true))
                    }
                    None => {
                        if r || !seen.is_empty() {
                            return Err(mon.ret(format!("change_priority_by(absent {}) returned {} / setter calls {}", id, r, seen.len())));
                        }
                        Ok(Ret::Bool(false))
                    }
                }
            }
            Op::Remove { id, k } => {
                let r = if *k {
                    self.q.remove_k(&Key(*id))
                } else {
                    let probe = Item::new(*id);
                    self.q.remove(&probe)
                };
                match (self.m.m.remove(id), r) {
                    (Some(e), Some((i, p))) => {
                        check_pair(mon, "remove", (&i, &p), *id, &e)?;
                        Ok(Ret::Pair(i.id(), p.ord))
                    }
                    (None, None) => Ok(Ret::None),
                    (Some(_), None) => Err(mon.ret(format!("remove(present {}) returned None", id))),
                    (None, Some((i, p))) => Err(mon.ret(format!("remove(absent {}) returned Some(({}, {}))", id, i.id(), p.ord))),
                }
            }
            Op::Peek { end } => {
                let want = self.m.extreme(*end);
                let r = self.q.peek(*end);
                self.check_extreme_ref(mon, "peek", r.map(|(i, p)| (i, p)), want)?;
                Ok(match r {
                    Some((i, p)) => Ret::Pair(i.id(), p.ord),
                    None => Ret::None,
                })
            }
            Op::PeekMut { end, touch } => {
                let want = self.m.extreme(*end);
                let peeked = self.q.peek(*end).map(|(i, p)| (i.id(), i.payload, p.ord, p.tag));
                let suspended = self.order_suspended;
                let r = self.q.peek_mut(*end);
                match (peeked, r) {
                    (None, None) => {
                        if want.is_some() {
                            return Err(mon.extreme(format!("peek_mut on non-empty queue (model {} elements) returned None", self.m.len())));
                        }
                        Ok(Ret::None)
                    }
                    (Some(pk), Some((i, p))) => {
                        if (i.id(), i.payload, p.ord, p.tag) != pk {
                            return Err(mon.extreme(format!("peek_mut addressed ({}, ord {}) but the preceding peek reported ({}, ord {})", i.id(), p.ord, pk.0, pk.2)));
                        }
                        let e = match self.m.m.get_mut(&pk.0) {
                            Some(e) => e,
                            None => return Err(mon.ret(format!("peek_mut reported item {} which is not stored", pk.0))),
                        };
                        if e.ord != p.ord {
                            return Err(mon.ret(format!("peek_mut: id {} priority {} but model has {}", pk.0, p.ord, e.ord)));
                        }
                        if !suspended && Some(p.ord) != want {
                            return Err(mon.extreme(format!("peek_mut addressed priority {} but the extreme is {:?}", p.ord, want)));
                        }
                        if i.payload != e.payload {
                            return Err(mon.payload(format!("peek_mut: id {} payload {} expected {}", pk.0, i.payload, e.payload)));
                        }
                        if *touch {
                            let np = fresh_payload();
                            i.payload = np;
                            e.payload = np;
                        }
                        Ok(Ret::Pair(pk.0, pk.2))
                    }
                    (a, b) => Err(mon.extreme(format!("peek reported {:?} but peek_mut reported {:?}", a.map(|x| x.0), b.map(|x| x.0.id())))),
                }
            }
            Op::Pop { end } => {
                let want = self.m.extreme(*end);
                let peeked = self.q.peek(*end).map(|(i, p)| (i.id(), i.payload, p.ord, p.tag));
                let r = self.q.pop(*end);
                match (peeked, r) {
                    (None, None) => {
                        if want.is_some() {
                            return Err(mon.extreme(format!("pop on non-empty queue (model {} elements) returned None", self.m.len())));
                        }
                        Ok(Ret::None)
                    }
                    (Some(pk), Some((i, p))) => {
                        if (i.id(), i.payload, p.ord, p.tag) != pk {
                            return Err(mon.extreme(format!("pop removed ({}, ord {}) but the preceding peek reported ({}, ord {})", i.id(), p.ord, pk.0, pk.2)));
                        }
                        let e = match self.m.m.remove(&pk.0) {
                            Some(e) => e,
                            None => return Err(mon.ret(format!("pop returned item {} which is not stored", pk.0))),
                        };
                        check_pair(mon, "pop", (&i, &p), pk.0, &e)?;
                        if !self.order_suspended && Some(p.ord) != want {
                            return Err(mon.extreme(format!("pop({:?}) returned priority {} but the extreme is {:?}", end, p.ord, want)));
                        }
                        Ok(Ret::Pair(pk.0, pk.2))
                    }
                    (a, b) => Err(mon.extreme(format!("peek reported {:?} but pop returned {:?}", a.map(|x| x.0), b.map(|x| x.0.id())))),
                }
            }
            Op::PopIf { end, accept, rewrite, touch } => {
                let want = self.m.extreme(*end);
                let peeked = self.q.peek(*end).map(|(i, p)| (i.id(), i.payload, p.ord, p.tag));
                let new_tag = fresh_tag();
                let new_pay = fresh_payload();
                let mut seen: Vec<(u32, u64, i64, u64)> = Vec::new();
                let r = self.q.pop_if(*end, |i, p| {
                    cb(Cb::Pred);
                    seen.push((i.id(), i.payload, p.ord, p.tag));
                    if *touch {
                        i.payload = new_pay;
                    }
                    if let Some(o) = rewrite {
                        p.ord = *o;
                        p.tag = new_tag;
                    }
                    *accept
                });
                match peeked {
                    None => {
                        if !seen.is_empty() || r.is_some() {
                            return Err(mon.predlog(format!("pop_if on a queue whose peek is None: predicate calls {} result {:?}", seen.len(), r.map(|x| x.0.id()))));
                        }
                        if want.is_some() {
                            return Err(mon.extreme(format!("peek on non-empty queue (model {} elements) returned None", self.m.len())));
                        }
                        Ok(Ret::None)
                    }
                    Some(pk) => {
                        if seen.len() != 1 {
                            return Err(mon.predlog(format!("pop_if predicate called {} times", seen.len())));
                        }
                        if seen[0] != pk {
                            return Err(mon.extreme(format!("pop_if showed its predicate ({}, ord {}) but the preceding peek reported ({}, ord {})", seen[0].0, seen[0].2, pk.0, pk.2)));
                        }
                        let e = match self.m.m.get(&pk.0) {
                            Some(e) => *e,
                            None => return Err(mon.ret(format!("pop_if showed item {} which is not stored", pk.0))),
                        };
                        if e.ord != pk.2 || e.tag != pk.3 {
                            return Err(mon.ret(format!("pop_if showed id {} priority {} but model has {}", pk.0, pk.2, e.ord)));
                        }
                        if e.payload != pk.1 {
                            return Err(mon.payload(format!("pop_if showed id {} payload {} expected {}", pk.0, pk.1, e.payload)));
                        }
                        if !self.order_suspended && Some(pk.2) != want {
                            return Err(mon.extreme(format!("pop_if showed priority {} but the extreme is {:?}", pk.2, want)));
                        }
                        let after = MEnt {
                            ord: rewrite.unwrap_or(e.ord),
                            tag: if rewrite.is_some() { new_tag } else { e.tag },
                            payload: if *touch { new_pay } else { e.payload },
                        };
                        if *accept {
                            self.m.m.remove(&pk.0);
                            match r {
                                Some((i, p)) => {
                                    if i.id() != pk.0 || p.ord != after.ord || p.tag != after.tag || i.payload != after.payload {
                                        // the pop family must return (and remove) the stored pair it showed: C08 and C03
                                        return Err(mon.popif_pair(format!(
                                            "pop_if(true) returned ({}, ord {}, tag {}, payload {}) expected ({}, ord {}, tag {}, payload {})",
                                            i.id(), p.ord, p.tag, i.payload, pk.0, after.ord, after.tag, after.payload
                                        )));
                                    }
                                    Ok(Ret::Pair(pk.0, after.ord))
                                }
                                None => Err(mon.popif_pair("pop_if(true) returned None".to_string())),
                            }
                        } else {
                            self.m.m.insert(pk.0, after);
                            match r {
                                None => Ok(Ret::None),
                                Some((i, _)) => Err(mon.popif_pair(format!("pop_if(false) removed item {}", i.id()))),
                            }
                        }
                    }
                }
            }
            Op::Get { id, k } => {
                let probe = Item::new(*id);
                let r = if *k { self.q.get_k(&Key(*id)) } else { self.q.get(&probe) };
                match (self.m.get(*id), r) {
                    (Some(e), Some((i, p))) => {
                        check_pair(mon, "get", (i, p), *id, e)?;
                        Ok(Ret::Pair(*id, p.ord))
                    }
                    (None, None) => Ok(Ret::None),
                    (a, b) => Err(mon.content(format!("get({}): model {:?} real {:?}", id, a.map(|e| e.ord), b.map(|x| x.1.ord)))),
                }
            }
            Op::GetPrio { id, k } => {
                let probe = Item::new(*id);
                let r = if *k { self.q.get_priority_k(&Key(*id)) } else { self.q.get_priority(&probe) };
                match (self.m.get(*id), r) {
                    (Some(e), Some(p)) => {
                        if p.ord != e.ord {
                            return Err(mon.content(format!("get_priority({}) = {} expected {}", id, p.ord, e.ord)));
                        }
                        if p.tag != e.tag {
                            return Err(mon.tag(format!("get_priority({}) tag {} expected {}", id, p.tag, e.tag)));
                        }
                        Ok(Ret::Ord(p.ord))
                    }
                    (None, None) => Ok(Ret::None),
                    (a, b) => Err(mon.content(format!("get_priority({}): model {:?} real {:?}", id, a.map(|e| e.ord), b.map(|x| x.ord)))),
                }
            }
            Op::GetMut { id, k, touch } => {
                let probe = Item::new(*id);
                let r = if *k { self.q.get_mut_k(&Key(*id)) } else { self.q.get_mut(&probe) };
                match (self.m.m.get_mut(id), r) {
                    (Some(e), Some((i, p))) => {
                        check_pair(mon, "get_mut", (&*i, p), *id, e)?;
                        if *touch {
                            let np = fresh_payload();
                            i.payload = np;
                            e.payload = np;
                        }
                        Ok(Ret::Pair(*id, p.ord))
                    }
                    (None, None) => Ok(Ret::None),
                    (a, b) => Err(mon.content(format!("get_mut({}): model {:?} real {:?}", id, a.map(|e| e.ord), b.map(|x| x.1.ord)))),
                }
            }
            Op::Observe => {
                let l = self.q.len();
                if l != self.m.len() {
                    return Err(mon.content(format!("len() = {} expected {}", l, self.m.len())));
                }
                if self.q.is_empty() != (self.m.len() == 0) {
                    return Err(mon.content(format!("is_empty() = {} with {} elements", self.q.is_empty(), self.m.len())));
                }
                let v = self.multiset_check(mon, "iter", self.q.iter().map(|(i, p)| (i.id(), i.payload, p.ord, p.tag)))?;
                self.multiset_check(mon, "&queue", self.q.iter_ref().map(|(i, p)| (i.id(), i.payload, p.ord, p.tag)))?;
                let d = self.q.debug_string();
                if d.is_empty() {
                    return Err(mon.other("M-DEBUG", "empty Debug output".to_string()));
                }
                Ok(Ret::Multi(v))
            }
            Op::IterMut { n, writes, touch, leak, via_ref, back } => {
                let mut seen: BTreeSet<u32> = BTreeSet::new();
                let mut out = Vec::new();
                let mut wrote = false;
                {
                    let model = &mut self.m;
                    let mut it = if *via_ref { self.q.iter_mut_ref() } else { self.q.iter_mut() };
                    for j in 0..*n {
                        match it.next() {
                            Some((i, p)) => {
                                let id = i.id();
                                if !seen.insert(id) {
                                    return Err(with_prop(mon.predlog(format!("iter_mut yielded item {} twice", id)), "C09"));
                                }
                                let e = match model.m.get_mut(&id) {
                                    Some(e) => e,
                                    None => return Err(with_prop(mon.content(format!("iter_mut yielded item {} which is not stored", id)), "C09")),
                                };
                                if p.ord != e.ord || p.tag != e.tag {
                                    return Err(mon.content(format!("iter_mut: id {} priority {} (tag {}) expected {} (tag {})", id, p.ord, p.tag, e.ord, e.tag)));
                                }
                                if i.payload != e.payload {
                                    return Err(mon.payload(format!("iter_mut: id {} payload {} expected {}", id, i.payload, e.payload)));
                                }
                                if let Some(Some(o)) = writes.get(j) {
                                    p.ord = *o;
                                    p.tag = fresh_tag();
                                    e.ord = p.ord;
                                    e.tag = p.tag;
                                    wrote = true;
                                }
                                if *touch {
                                    let np = fresh_payload();
                                    i.payload = np;
                                    e.payload = np;
                                }
                                out.push((id, p.ord));
                            }
                            None => {
                                if seen.len() != model.len() {
                                    return Err(with_prop(mon.predlog(format!("iter_mut ended after {} of {} elements", seen.len(), model.len())), "C09"));
                                }
                            }
                        }
                    }
                    for _ in 0..*back {
                        match Q::im_next_back(&mut it) {
                            None => break, // not offered by this iterator type
                            Some(Some((i, p))) => {
                                let id = i.id();
                                if !seen.insert(id) {
                                    return Err(with_prop(mon.predlog(format!("iter_mut yielded item {} twice (from the back)", id)), "C09"));
                                }
                                match model.m.get(&id) {
                                    Some(e) if e.ord == p.ord && e.tag == p.tag && e.payload == i.payload => {}
                                    Some(e) => return Err(mon.content(format!("iter_mut (back): id {} priority {} payload {} expected {} / {}", id, p.ord, i.payload, e.ord, e.payload))),
                                    None => return Err(with_prop(mon.content(format!("iter_mut yielded item {} which is not stored", id)), "C09")),
                                }
                                out.push((id, p.ord));
                            }
                            Some(None) => {
                                if seen.len() != model.len() {
                                    return Err(with_prop(mon.predlog(format!("iter_mut ended (from the back) after {} of {} elements", seen.len(), model.len())), "C09"));
                                }
                            }
                        }
                    }
                    if *leak {
                        std::mem::forget(it);
                    } else {
                        drop(it);
                    }
                }
                if *leak {
                    if wrote {
                        self.order_suspended = true;
                    }
                } else {
                    self.order_suspended = false;
                }
                Ok(Ret::Seq(out))
            }
            Op::Retain { pred } => {
                let mut log: Vec<(u32, i64, u64, u64)> = Vec::new();
                self.q.retain(|i, p| {
                    cb(Cb::Pred);
                    log.push((i.id(), p.ord, p.tag, i.payload));
                    pred.keep(i.id(), p.ord)
                });
                self.check_predlog(mon, &log)?;
                self.m.m.retain(|id, e| pred.keep(*id, e.ord));
                self.order_suspended = false;
                Ok(Ret::Len(self.m.len()))
            }
            Op::RetainMut { pred, rewrite } => {
                let mut log: Vec<(u32, i64, u64, u64)> = Vec::new();
                let mut written: BTreeMap<u32, (i64, u64)> = BTreeMap::new();
                self.q.retain_mut(|i, p| {
                    cb(Cb::Pred);
                    log.push((i.id(), p.ord, p.tag, i.payload));
                    let keep = pred.keep(i.id(), p.ord);
                    if let Some(o) = rewrite.apply(i.id(), p.ord) {
                        p.ord = o;
                        p.tag = fresh_tag();
                        written.insert(i.id(), (p.ord, p.tag));
                    }
                    keep
                });
                self.check_predlog(mon, &log)?;
                self.m.m.retain(|id, e| pred.keep(*id, e.ord));
                for (id, (o, t)) in written {
                    if let Some(e) = self.m.m.get_mut(&id) {
                        e.ord = o;
                        e.tag = t;
                    }
                }
                self.order_suspended = false;
                Ok(Ret::Len(self.m.len()))
            }
            Op::Extend { pairs, hint } => {
                let mut v = Vec::new();
                let mut offered: BTreeMap<u32, Vec<u64>> = BTreeMap::new();
                for &(id, ord) in pairs {
                    let it = Item::new(id);
                    let p = Prio::new(ord);
                    offered.entry(id).or_default().push(it.payload);
                    match self.m.m.get_mut(&id) {
                        Some(e) => {
                            e.ord = ord;
                            e.tag = p.tag;
                        }
                        None => {
                            self.m.m.insert(id, MEnt { ord, tag: p.tag, payload: it.payload });
                        }
                    }
                    v.push((it, p));
                }
                self.q.extend(HintIter::new(v, *hint));
                adopt_payloads(&self.q, &mut self.m, &offered, mon)?;
                Ok(Ret::Len(self.m.len()))
            }
            Op::Append { pairs, cap } => {
                let mut o = Q::q_with_capacity(*cap);
                let mut om = Model::default();
                for &(id, ord) in pairs {
                    let it = Item::new(id);
                    let p = Prio::new(ord);
                    let (tag, pay) = (p.tag, it.payload);
                    o.push(it, p);
                    match om.m.get_mut(&id) {
                        Some(e) => {
                            e.ord = ord;
                            e.tag = tag;
                        }
                        None => {
                            om.m.insert(id, MEnt { ord, tag, payload: pay });
                        }
                    }
                }
                source_ok(&o, &om)?;
                let other_longer = om.len() > self.m.len();
                self.q.append(&mut o);
                // other must be empty and well-formed afterwards
                let os = o.snapshot();
                if let Err(d) = os.tables() {
                    std::mem::forget(o);
                    return Err(mon.tables(format!("other queue after append: {}", d)));
                }
                if o.len() != 0 || !o.is_empty() || o.iter().next().is_some() {
                    return Err(mon.content(format!("append left {} elements in the other queue", o.len())));
                }
                for e in Q::ends() {
                    if o.peek(*e).is_some() {
                        return Err(mon.content("append: other queue still peeks an element".to_string()));
                    }
                }
                for (id, e) in om.m {
                    match self.m.m.get(&id).copied() {
                        None => {
                            self.m.m.insert(id, e);
                        }
                        Some(mine) => {
                            if other_longer {
                                // either element may stay (as a whole): adopt the real one
                                let real = self.q.get_k(&Key(id)).map(|(i, p)| MEnt { ord: p.ord, tag: p.tag, payload: i.payload });
                                match real {
                                    Some(r) if r == mine || r == e => {
                                        self.m.m.insert(id, r);
                                    }
                                    other => {
                                        return Err(mon.content(format!("append clash on {}: stored {:?}, allowed {:?} or {:?}", id, other, mine, e)));
                                    }
                                }
                            }
                        }
                    }
                }
                drop(o);
                self.order_suspended = false;
                Ok(Ret::Len(self.m.len()))
            }
            Op::Convert => {
                let q = std::mem::replace(&mut self.q, Q::q_with_default_hasher());
                let o = <Q::Other as QueueApi>::q_from_other(q);
                // the other kind must be a correctly ordered queue with the same contents
                let os = o.snapshot();
                if let Err(d) = os.tables() {
                    return Err(mon.tables(format!("converted queue: {}", d)));
                }
                let ord_res = match <Q::Other as QueueApi>::KIND {
                    Kind::Pq => os.order_max(),
                    Kind::Dpq => os.order_minmax(),
                };
                if let Err(d) = ord_res {
                    let m2 = Mon { kind: <Q::Other as QueueApi>::KIND, opname, extra: &["C07"] };
                    return Err(m2.order(format!("converted queue: {}", d)));
                }
                self.q = Q::q_from_other(o);
                self.order_suspended = false;
                Ok(Ret::Unit)
            }
            Op::CloneSwap => {
                let c = self.q.q_clone();
                if !c.eq_q(&self.q) || !self.q.eq_q(&c) || c.ne_q(&self.q) {
                    return Err(mon.other("M-EQ", "a clone is not equal to its source".to_string()));
                }
                self.q = c;
                Ok(Ret::Unit)
            }
            Op::CloneFrom { pre, into_self: true } => {
                let mut src = Q::q_new();
                let mut srcm = Model::default();
                for &(id, ord) in pre {
                    let it = Item::new(id);
                    let p = Prio::new(ord);
                    let (tag, pay) = (p.tag, it.payload);
                    src.push(it, p);
                    match srcm.m.get_mut(&id) {
                        Some(e) => {
                            e.ord = ord;
                            e.tag = tag;
                        }
                        None => {
                            srcm.m.insert(id, MEnt { ord, tag, payload: pay });
                        }
                    }
                }
                source_ok(&src, &srcm)?;
                self.q.q_clone_from(&src);
                if !self.q.eq_q(&src) || !src.eq_q(&self.q) || self.q.ne_q(&src) {
                    return Err(mon.other("M-EQ", "after queue.clone_from(&other) the queue is not equal to other".to_string()));
                }
                self.m = srcm;
                self.order_suspended = false;
                Ok(Ret::Unit)
            }
            Op::CloneFrom { pre, .. } => {
                let mut dst = Q::q_new();
                for &(id, ord) in pre {
                    dst.push(Item::new(id), Prio::new(ord));
                }
                dst.q_clone_from(&self.q);
                if !dst.eq_q(&self.q) || !self.q.eq_q(&dst) || dst.ne_q(&self.q) {
                    return Err(mon.other("M-EQ", "a clone made with clone_from is not equal to its source".to_string()));
                }
                self.q = dst;
                Ok(Ret::Unit)
            }
            Op::Drain { front, back, leak } => {
                let mut rest = self.m.clone();
                let total = rest.len();
                let mut out = Vec::new();
                {
                    let mut d = self.q.drain();
                    for j in 0..(*front + *back) {
                        let r = if j < *front { d.next() } else { d.next_back() };
                        match r {
                            Some((i, p)) => match rest.m.remove(&i.id()) {
                                Some(e) => {
                                    check_pair(mon, "drain", (&i, &p), i.id(), &e)?;
                                    out.push((i.id(), p.ord));
                                }
                                None => return Err(mon.content(format!("drain yielded item {} twice or not stored", i.id()))),
                            },
                            None => {
                                if !rest.m.is_empty() {
                                    return Err(mon.content(format!("drain ended with {} of {} elements not yielded", rest.len(), total)));
                                }
                            }
                        }
                    }
                    if *leak {
                        self.expected_leaks += 2 * rest.len() as i64;
                        std::mem::forget(d);
                    } else {
                        drop(d);
                    }
                }
                self.m.m.clear();
                self.order_suspended = false;
                self.used_drain_or_clear = true;
                out.sort_unstable();
                Ok(Ret::Multi(out))
            }
            Op::Clear => {
                self.q.clear();
                self.m.m.clear();
                self.order_suspended = false;
                self.used_drain_or_clear = true;
                Ok(Ret::Unit)
            }
            Op::Reserve(n) | Op::ReserveExact(n) => {
                if matches!(op, Op::Reserve(_)) {
                    self.q.reserve(*n);
                } else {
                    self.q.reserve_exact(*n);
                }
                let need = self.m.len() + *n;
                if self.q.capacity() < need {
                    return Err(mon.cap(format!("{}({}): capacity {} < len {} + {}", opname, n, self.q.capacity(), self.m.len(), n)));
                }
                Ok(Ret::Unit)
            }
            Op::TryReserve(n) | Op::TryReserveExact(n) => {
                let r = if matches!(op, Op::TryReserve(_)) { self.q.try_reserve(*n) } else { self.q.try_reserve_exact(*n) };
                match r {
                    Ok(()) => {
                        let need = self.m.len().saturating_add(*n);
                        if self.q.capacity() < need {
                            return Err(mon.cap(format!("{}({}) = Ok but capacity {} < len {} + {}", opname, n, self.q.capacity(), self.m.len(), n)));
                        }
                        Ok(Ret::ResOk)
                    }
                    Err(_) => {
                        if *n <= (1 << 20) {
                            return Err(mon.cap(format!("{}({}) failed on a small request", opname, n)));
                        }
                        Ok(Ret::ResErr)
                    }
                }
            }
            Op::Shrink => {
                self.q.shrink_to_fit();
                if self.q.capacity() < self.m.len() {
                    return Err(mon.cap(format!("shrink_to_fit: capacity {} < len {}", self.q.capacity(), self.m.len())));
                }
                Ok(Ret::Unit)
            }
            Op::SortedCheck => {
                if self.order_suspended {
                    return Ok(Ret::Unit);
                }
                let mut seq = Vec::new();
                for desc in [true, false] {
                    if !desc && Q::KIND == Kind::Pq {
                        continue;
                    }
                    let v = self.q.q_clone().into_sorted_pairs(desc);
                    self.check_sorted(mon, desc, v.iter().map(|(i, p)| (i.id(), i.payload, p.ord, p.tag)))?;
                    if desc {
                        seq = v.iter().map(|(i, p)| (i.id(), p.ord)).collect();
                    }
                }
                Ok(Ret::Seq(seq))
            }
            Op::SortedItemsCheck { desc } => {
                if self.order_suspended || (!*desc && Q::KIND == Kind::Pq) {
                    return Ok(Ret::Unit);
                }
                let v = self.q.q_clone().into_sorted_items(*desc);
                let mut tuples = Vec::new();
                for i in &v {
                    match self.m.get(i.id()) {
                        Some(e) => tuples.push((i.id(), i.payload, e.ord, e.tag)),
                        None => return Err(mon.sorted(format!("into_sorted_vec yielded item {} which is not stored", i.id()))),
                    }
                }
                self.check_sorted(mon, *desc, tuples.iter().copied())?;
                Ok(Ret::Seq(tuples.iter().map(|t| (t.0, t.2)).collect()))
            }
            Op::IntoIterCheck => {
                let c = self.q.q_clone();
                let v = self.multiset_check(mon, "into_iter", c.into_iter_q().map(|(i, p)| (i.id(), i.payload, p.ord, p.tag)))?;
                Ok(Ret::Multi(v))
            }
            Op::IntoVecCheck => {
                let c = self.q.q_clone();
                let mut ids: Vec<u32> = c.into_vec().iter().map(|i| i.id()).collect();
                ids.sort_unstable();
                if ids != self.m.ids() {
                    return Err(mon.content(format!("into_vec ids {:?} expected {:?}", ids, self.m.ids())));
                }
                Ok(Ret::Len(ids.len()))
            }
            Op::EqCheck => {
                let c = self.q.q_clone();
                if !c.eq_q(&self.q) || !self.q.eq_q(&c) || c.ne_q(&self.q) || !self.q.eq_q(&self.q) {
                    return Err(mon.other("M-EQ", "clone / self equality failed".to_string()));
                }
                Ok(Ret::Bool(true))
            }
            Op::Serde { via_other } => {
                let js = match self.q.to_json() {
                    Ok(s) => s,
                    Err(e) => return Err(mon.other("M-SERDE", format!("serialization failed: {}", e))),
                };
                let back: Q = if *via_other {
                    let o = match <Q::Other as QueueApi>::from_json(&js) {
                        Ok(o) => o,
                        Err(e) => return Err(mon.other("M-SERDE", format!("deserializing own output as the other kind failed: {}", e))),
                    };
                    let js2 = match o.to_json() {
                        Ok(s) => s,
                        Err(e) => return Err(mon.other("M-SERDE", format!("serialization failed: {}", e))),
                    };
                    match Q::from_json(&js2) {
                        Ok(q) => q,
                        Err(e) => return Err(mon.other("M-SERDE", format!("deserialization failed: {}", e))),
                    }
                } else {
                    match Q::from_json(&js) {
                        Ok(q) => q,
                        Err(e) => return Err(mon.other("M-SERDE", format!("deserializing own output failed: {}", e))),
                    }
                };
                if !back.eq_q(&self.q) || !self.q.eq_q(&back) {
                    return Err(mon.other("M-SERDE", "round-trip result != original".to_string()));
                }
                self.q = back;
                // deserialized values are new objects: adopt their tags / payloads (ids and
                // priorities are still checked against the model by M-CONTENT)
                for (id, e) in self.m.m.iter_mut() {
                    if let Some((i, p)) = self.q.get_k(&Key(*id)) {
                        if p.ord == e.ord {
                            e.tag = p.tag;
                            e.payload = i.payload;
                        }
                    }
                }
                self.order_suspended = false;
                Ok(Ret::Unit)
            }
        }
    }

    fn check_extreme_ref(&self, mon: &Mon, what: &str, r: Option<(&Item, &Prio)>, want: Option<i64>) -> R<()> {
        match (r, want) {
            (None, None) => Ok(()),
            (Some((i, p)), Some(w)) => {
                let e = match self.m.get(i.id()) {
                    Some(e) => e,
                    None => return Err(mon.extreme(format!("{} reported item {} which is not stored", what, i.id()))),
                };
                if p.ord != e.ord {
                    return Err(mon.ret(format!("{}: id {} priority {} but model has {}", what, i.id(), p.ord, e.ord)));
                }
                if !self.order_suspended && p.ord != w {
                    return Err(mon.extreme(format!("{} reported priority {} but the extreme is {}", what, p.ord, w)));
                }
                if p.tag != e.tag {
                    return Err(mon.tag(format!("{}: id {} tag {} expected {}", what, i.id(), p.tag, e.tag)));
                }
                if i.payload != e.payload {
                    return Err(mon.payload(format!("{}: id {} payload {} expected {}", what, i.id(), i.payload, e.payload)));
                }
                Ok(())
            }
            (None, Some(_)) => Err(mon.extreme(format!("{} returned None on a queue of {} elements", what, self.m.len()))),
            (Some((i, _)), None) => Err(mon.extreme(format!("{} returned item {} on an empty queue", what, i.id()))),
        }
    }

    fn multiset_check(&self, mon: &Mon, what: &str, it: impl Iterator<Item = (u32, u64, i64, u64)>) -> R<Vec<(u32, i64)>> {
        let mut got: Vec<(u32, u64, i64, u64)> = it.collect();
        got.sort_unstable();
        let want: Vec<(u32, u64, i64, u64)> = self.m.m.iter().map(|(k, e)| (*k, e.payload, e.ord, e.tag)).collect();
        if got.len() != want.len() || got.iter().zip(&want).any(|(a, b)| a.0 != b.0 || a.2 != b.2) {
            return Err(mon.content(format!(
                "{} yields {:?} expected {:?}",
                what,
                got.iter().map(|t| (t.0, t.2)).collect::<Vec<_>>(),
                want.iter().map(|t| (t.0, t.2)).collect::<Vec<_>>()
            )));
        }
        for (a, b) in got.iter().zip(&want) {
            if a.3 != b.3 {
                return Err(mon.tag(format!("{}: id {} tag {} expected {}", what, a.0, a.3, b.3)));
            }
            if a.1 != b.1 {
                return Err(mon.payload(format!("{}: id {} payload {} expected {}", what, a.0, a.1, b.1)));
            }
        }
        Ok(got.iter().map(|t| (t.0, t.2)).collect())
    }

    fn check_sorted(&self, mon: &Mon, desc: bool, it: impl Iterator<Item = (u32, u64, i64, u64)>) -> R<()> {
        let seq: Vec<(u32, u64, i64, u64)> = it.collect();
        for w in seq.windows(2) {
            let bad = if desc { w[0].2 < w[1].2 } else { w[0].2 > w[1].2 };
            if bad {
                return Err(mon.sorted(format!(
                    "sorted consumption ({}) not monotone: {} then {}",
                    if desc { "descending" } else { "ascending" },
                    w[0].2,
                    w[1].2
                )));
            }
        }
        let mut got = seq.clone();
        got.sort_unstable();
        let want: Vec<(u32, u64, i64, u64)> = self.m.m.iter().map(|(k, e)| (*k, e.payload, e.ord, e.tag)).collect();
        if got != want {
            return Err(mon.sorted(format!(
                "sorted consumption yields {:?} expected {:?}",
                got.iter().map(|t| (t.0, t.2)).collect::<Vec<_>>(),
                want.iter().map(|t| (t.0, t.2)).collect::<Vec<_>>()
            )));
        }
        Ok(())
    }

    fn check_predlog(&self, mon: &Mon, log: &[(u32, i64, u64, u64)]) -> R<()> {
        let mut seen: BTreeSet<u32> = BTreeSet::new();
        for &(id, ord, tag, pay) in log {
            if !seen.insert(id) {
                return Err(mon.predlog(format!("predicate called twice for item {}", id)));
            }
            match self.m.get(id) {
                None => return Err(mon.predlog(format!("predicate called for item {} which is not stored", id))),
                Some(e) => {
                    if e.ord != ord || e.tag != tag {
                        return Err(mon.predlog(format!("predicate saw id {} priority {} but it is {}", id, ord, e.ord)));
                    }
                    if e.payload != pay {
                        return Err(mon.payload(format!("predicate saw id {} payload {} expected {}", id, pay, e.payload)));
                    }
                }
            }
        }
        if seen.len() != self.m.len() {
            return Err(mon.predlog(format!("predicate called for {} of {} elements", seen.len(), self.m.len())));
        }
        Ok(())
    }

    /// Monitors evaluated at the quiescent point after an operation.
    /// `universe`: ids for which presence *and absence* are checked through the lookups.
    pub fn post_check(&mut self, opname: &str, extra: &[&'static str], universe: &[u32], full: bool) -> R<Snap> {
        let mon = Mon { kind: Q::KIND, opname, extra };
        let mon = &mon;
        // M-TABLES
        let s = self.q.snapshot();
        let tables_ok = match s.tables() {
            Ok(()) => true,
            Err(d) => {
                if !self.tables_broken {
                    return Err(mon.tables(d));
                }
                false
            }
        };
        // len / is_empty
        if self.q.len() != self.m.len() {
            return Err(mon.content(format!("len() = {} expected {}", self.q.len(), self.m.len())));
        }
        if self.q.is_empty() != (self.m.len() == 0) {
            return Err(mon.content(format!("is_empty() = {} with {} elements", self.q.is_empty(), self.m.len())));
        }
        // M-ORDER
        if !self.order_suspended && tables_ok {
            match Q::KIND {
                Kind::Pq => s.order_max(),
                Kind::Dpq => s.order_minmax(),
            }
            .map_err(|d| mon.order(d))?;
        }
        // M-CONTENT through the snapshot (cheap, complete)
        {
            let mut got: Vec<(u32, u64, i64, u64)> = s.ent.clone();
            got.sort_unstable();
            let mut it = self.m.m.iter();
            for g in &got {
                match it.next() {
                    Some((k, e)) if *k == g.0 && e.ord == g.2 => {
                        if e.payload != g.1 {
                            // the stored item VALUE was replaced (C12); if the priority object was
                            // replaced along with it, that is a C03 matter as well
                            let mut v = mon.payload(format!("stored item {} has payload {} expected {}", g.0, g.1, e.payload));
                            if e.tag != g.3 {
                                v.props.push("C03");
                                v.detail.push_str(" (and its priority object was replaced too)");
                            }
                            return Err(v);
                        }
                        if e.tag != g.3 {
                            return Err(mon.tag(format!("stored priority object of id {} has tag {} expected {} (ord equal: {})", g.0, g.3, e.tag, e.ord)));
                        }
                    }
                    _ => {
                        return Err(mon.content(format!(
                            "contents {:?} expected {:?}",
                            got.iter().map(|t| (t.0, t.2)).collect::<Vec<_>>(),
                            self.m.pairs()
                        )))
                    }
                }
            }
            if it.next().is_some() {
                return Err(mon.content(format!(
                    "contents {:?} expected {:?}",
                    got.iter().map(|t| (t.0, t.2)).collect::<Vec<_>>(),
                    self.m.pairs()
                )));
            }
        }
        // M-CONTENT through the public lookups, for present and absent ids
        for &id in universe {
            let want = self.m.get(id).copied();
            let probe = Item::with_payload(id, u64::MAX);
            let key = Key(id);
            let a = self.q.get(&probe).map(|(i, p)| (i.id(), i.payload, p.ord, p.tag));
            let b = self.q.get_k(&key).map(|(i, p)| (i.id(), i.payload, p.ord, p.tag));
            let c = self.q.get_priority(&probe).map(|p| (p.ord, p.tag));
            let d = self.q.get_priority_k(&key).map(|p| (p.ord, p.tag));
            let e = self.q.get_mut(&probe).map(|(i, p)| (i.id(), i.payload, p.ord, p.tag));
            let w4 = want.map(|e| (id, e.payload, e.ord, e.tag));
            let w2 = want.map(|e| (e.ord, e.tag));
            if a != w4 || e != w4 || c != w2 {
                if a.map(|x| (x.0, x.2)) == w4.map(|x| (x.0, x.2)) && e.map(|x| (x.0, x.2)) == w4.map(|x| (x.0, x.2)) && c.map(|x| x.0) == w2.map(|x| x.0) {
                    if a.map(|x| x.1) != w4.map(|x| x.1) {
                        return Err(mon.payload(format!("get({}) payload {:?} expected {:?}", id, a.map(|x| x.1), w4.map(|x| x.1))));
                    }
                    return Err(mon.tag(format!("lookup of {}: priority object differs from the last one assigned", id)));
                }
                return Err(mon.content(format!("lookup of {}: get={:?} get_mut={:?} get_priority={:?} expected {:?}", id, a.map(|x| x.2), e.map(|x| x.2), c.map(|x| x.0), w2.map(|x| x.0))));
            }
            if b != a || d != c {
                return Err(mon.payload(format!("lookup of {} through the borrowed key disagrees with the owned key: {:?}/{:?} vs {:?}/{:?}", id, b, d, a, c)));
            }
        }
        if full {
            let mon2 = Mon { kind: Q::KIND, opname, extra };
            self.multiset_check(&mon2, "iter", self.q.iter().map(|(i, p)| (i.id(), i.payload, p.ord, p.tag)))?;
            // M-PEEK without extraction
            if !self.order_suspended {
                for e in Q::ends() {
                    let want = self.m.extreme(*e);
                    self.check_extreme_ref(&mon2, "peek", self.q.peek(*e), want)?;
                }
            }
        }
        Ok(s)
    }
}

/// An auxiliary queue built with plain pushes (the argument of append / clone_from) must itself
/// be well formed before the operation under test is judged on it; if it is not, that is reported
/// against `push` under the properties of the failed monitor only.
fn source_ok<Q: QueueApi>(q: &Q, m: &Model) -> R<()> {
    let mon = Mon { kind: Q::KIND, opname: "push", extra: &[] };
    let s = q.snapshot();
    s.tables().map_err(|d| mon.tables(format!("auxiliary queue: {}", d)))?;
    match Q::KIND {
        Kind::Pq => s.order_max(),
        Kind::Dpq => s.order_minmax(),
    }
    .map_err(|d| mon.order(format!("auxiliary queue: {}", d)))?;
    let got = Model::from_snap(&s);
    if got.pairs() != m.pairs() {
        return Err(mon.content(format!("auxiliary queue holds {:?} expected {:?}", got.pairs(), m.pairs())));
    }
    for (id, e) in &m.m {
        let g = got.m[id];
        if g.payload != e.payload {
            return Err(mon.payload(format!("auxiliary queue: stored item {} has payload {} expected {}", id, g.payload, e.payload)));
        }
        if g.tag != e.tag {
            return Err(mon.tag(format!("auxiliary queue: stored priority object of id {} has tag {} expected {}", id, g.tag, e.tag)));
        }
    }
    Ok(())
}

pub fn with_prop(mut v: Viol, p: &'static str) -> Viol {
    if !v.props.contains(&p) {
        v.props.push(p);
    }
    v
}

/// `extend` / `FromIterator` on a repeated item: which physical item value stays is not
/// specified (the push strategy keeps the stored one, the rebuild strategy the incoming one).
/// Accept any offered or previously stored payload and adopt it.
fn adopt_payloads<Q: QueueApi>(q: &Q, m: &mut Model, offered: &BTreeMap<u32, Vec<u64>>, mon: &Mon) -> R<()> {
    for (id, pays) in offered {
        if let Some(e) = m.m.get_mut(id) {
            match q.get_k(&Key(*id)) {
                Some((i, _)) => {
                    if i.payload == e.payload || pays.contains(&i.payload) {
                        e.payload = i.payload;
                    } else {
                        return Err(mon.payload(format!("item {} has payload {} which was neither stored nor offered", id, i.payload)));
                    }
                }
                None => return Err(mon.content(format!("item {} missing after bulk insertion", id))),
            }
        }
    }
    Ok(())
}
