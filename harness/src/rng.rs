//! Small deterministic PRNG (splitmix64); no external randomness anywhere in the harness.

#[derive(Clone, Debug)]
pub struct Rng(pub u64);

pub fn mix(mut z: u64) -> u64 {
    z = z.wrapping_add(0x9E37_79B9_7F4A_7C15);
    z = (z ^ (z >> 30)).wrapping_mul(0xBF58_476D_1CE4_E5B9);
    z = (z ^ (z >> 27)).wrapping_mul(0x94D0_49BB_1331_11EB);
    z ^ (z >> 31)
}

impl Rng {
    pub fn new(seed: u64) -> Self {
        Rng(mix(seed ^ 0xA076_1D64_78BD_642F))
    }
    pub fn derive(seed: u64, a: u64, b: u64) -> Self {
        Rng::new(mix(seed).wrapping_add(mix(a.wrapping_mul(0x1000_0001)).wrapping_add(mix(b ^ 0x55))))
    }
    pub fn next_u64(&mut self) -> u64 {
        self.0 = self.0.wrapping_add(0x9E37_79B9_7F4A_7C15);
        let mut z = self.0;
        z = (z ^ (z >> 30)).wrapping_mul(0xBF58_476D_1CE4_E5B9);
        z = (z ^ (z >> 27)).wrapping_mul(0x94D0_49BB_1331_11EB);
        z ^ (z >> 31)
    }
    /// uniform in 0..n (n > 0)
    pub fn below(&mut self, n: usize) -> usize {
        debug_assert!(n > 0);
        (self.next_u64() % (n as u64)) as usize
    }
    /// uniform in lo..=hi
    pub fn range(&mut self, lo: i64, hi: i64) -> i64 {
        let span = (hi - lo) as u64 + 1;
        lo + (self.next_u64() % span) as i64
    }
    pub fn chance(&mut self, num: usize, den: usize) -> bool {
        self.below(den) < num
    }
    pub fn pick<'a, T>(&mut self, xs: &'a [T]) -> &'a T {
        &xs[self.below(xs.len())]
    }
    pub fn shuffle<T>(&mut self, xs: &mut [T]) {
        for i in (1..xs.len()).rev() {
            let j = self.below(i + 1);
            xs.swap(i, j);
        }
    }
    /// weighted choice: returns index
    pub fn weighted(&mut self, w: &[u32]) -> usize {
        let tot: u64 = w.iter().map(|&x| x as u64).sum();
        debug_assert!(tot > 0);
        let mut r = self.next_u64() % tot;
        for (i, &x) in w.iter().enumerate() {
            if r < x as u64 {
                return i;
            }
            r -= x as u64;
        }
        w.len() - 1
    }
}
