//! C15: serialization round trips (JSON text and serde tokens, both kinds both ways) and totality
//! of deserialization over arbitrary pair sequences (with duplicates).

use crate::api::*;
use crate::cli::{Args, Journal, Sink};
use crate::iters::{recipe, Recipe};
use crate::model::Model;
use crate::ops::*;
use crate::rng::Rng;
use crate::types::*;
use serde::de::value::Error as DeError;
use serde::de::{DeserializeSeed, Deserializer, IntoDeserializer, SeqAccess, Visitor};
use std::collections::BTreeMap;
use std::panic::{catch_unwind, AssertUnwindSafe};

/// A non-self-describing "token" source: a sequence of (u32, i64) tuples, with or without a
/// length hint.
struct PairsDe<'a> {
    pairs: &'a [(u32, i64)],
    hint: bool,
}
struct PairsSeq<'a> {
    pairs: &'a [(u32, i64)],
    pos: usize,
    hint: bool,
}
struct PairDe(u32, i64);
struct PairSeq(u32, i64, u8);

impl<'de, 'a> Deserializer<'de> for PairsDe<'a> {
    type Error = DeError;
    fn deserialize_any<V: Visitor<'de>>(self, v: V) -> Result<V::Value, DeError> {
        v.visit_seq(PairsSeq { pairs: self.pairs, pos: 0, hint: self.hint })
    }
    serde::forward_to_deserialize_any! { bool i8 i16 i32 i64 i128 u8 u16 u32 u64 u128 f32 f64 char str string bytes byte_buf option unit unit_struct newtype_struct seq tuple tuple_struct map struct enum identifier ignored_any }
}
impl<'de, 'a> SeqAccess<'de> for PairsSeq<'a> {
    type Error = DeError;
    fn next_element_seed<T: DeserializeSeed<'de>>(&mut self, seed: T) -> Result<Option<T::Value>, DeError> {
        if self.pos >= self.pairs.len() {
            return Ok(None);
        }
        let (i, o) = self.pairs[self.pos];
        self.pos += 1;
        seed.deserialize(PairDe(i, o)).map(Some)
    }
    fn size_hint(&self) -> Option<usize> {
        if self.hint {
            Some(self.pairs.len() - self.pos)
        } else {
            None
        }
    }
}
impl<'de> Deserializer<'de> for PairDe {
    type Error = DeError;
    fn deserialize_any<V: Visitor<'de>>(self, v: V) -> Result<V::Value, DeError> {
        v.visit_seq(PairSeq(self.0, self.1, 0))
    }
    serde::forward_to_deserialize_any! { bool i8 i16 i32 i64 i128 u8 u16 u32 u64 u128 f32 f64 char str string bytes byte_buf option unit unit_struct newtype_struct seq tuple tuple_struct map struct enum identifier ignored_any }
}
impl<'de> SeqAccess<'de> for PairSeq {
    type Error = DeError;
    fn next_element_seed<T: DeserializeSeed<'de>>(&mut self, seed: T) -> Result<Option<T::Value>, DeError> {
        self.2 += 1;
        match self.2 {
            1 => seed.deserialize(IntoDeserializer::<DeError>::into_deserializer(self.0)).map(Some),
            2 => seed.deserialize(IntoDeserializer::<DeError>::into_deserializer(self.1)).map(Some),
            _ => Ok(None),
        }
    }
    fn size_hint(&self) -> Option<usize> {
        Some(2usize.saturating_sub(self.2 as usize))
    }
}

#[derive(Clone, Copy, Debug, PartialEq, Eq, serde::Serialize, serde::Deserialize)]
pub enum Via {
    Json,
    Tokens,
    TokensNoHint,
}

fn json_of(pairs: &[(u32, i64)]) -> String {
    let parts: Vec<String> = pairs.iter().map(|(i, o)| format!("[{},{}]", i, o)).collect();
    format!("[{}]", parts.join(","))
}

fn viol(kind: Kind, what: &str, monitor: &'static str, detail: String, mut props: Vec<&'static str>) -> Viol {
    if !props.contains(&"C15") {
        props.insert(0, "C15");
    }
    Viol { monitor, op: format!("deserialize/{}", what), kind: kind.name(), detail, props }
}

/// Deserialize an arbitrary pair sequence: Err is fine; Ok(q) must be a well-formed queue holding
/// every distinct item once with one of the priorities given for it.
pub fn check_arbitrary<Q: QueueApi>(pairs: &[(u32, i64)], via: Via, cont: &[Op]) -> Result<bool, Viol> {
    reset_episode();
    let kind = Q::KIND;
    let what = format!("{:?}", via);
    let res = catch_unwind(AssertUnwindSafe(|| match via {
        Via::Json => Q::from_json(&json_of(pairs)).map_err(|e| e.to_string()),
        Via::Tokens => Q::deserialize_from(PairsDe { pairs, hint: true }).map_err(|e| e.to_string()),
        Via::TokensNoHint => Q::deserialize_from(PairsDe { pairs, hint: false }).map_err(|e| e.to_string()),
    }));
    let q = match res {
        Err(_) => {
            let msg = take_last_panic().unwrap_or_default();
            return Err(viol(kind, &what, "M-PANIC", format!("deserializing a well-typed pair sequence panicked: {}", msg), vec!["C15", "C04"]));
        }
        Ok(Err(_)) => return Ok(false), // an error is an allowed outcome
        Ok(Ok(q)) => q,
    };
    let mut given: BTreeMap<u32, Vec<i64>> = BTreeMap::new();
    for (i, o) in pairs {
        given.entry(*i).or_default().push(*o);
    }
    let s = q.snapshot();
    if let Err(d) = s.tables() {
        std::mem::forget(q);
        return Err(viol(kind, &what, "M-TABLES", format!("deserialized queue: {}", d), vec!["C15", "C04"]));
    }
    let n_iter = q.iter().count();
    if q.len() != given.len() || n_iter != given.len() {
        return Err(viol(kind, &what, "M-CONTENT", format!("{} distinct items given but len() = {} and iter() yields {}", given.len(), q.len(), n_iter), vec!["C15"]));
    }
    for (i, p) in q.iter() {
        match given.get(&i.id()) {
            Some(v) if v.contains(&p.ord) => {}
            _ => return Err(viol(kind, &what, "M-CONTENT", format!("item {} holds priority {} which was not given for it", i.id(), p.ord), vec!["C15"])),
        }
    }
    let ord = match kind {
        Kind::Pq => s.order_max(),
        Kind::Dpq => s.order_minmax(),
    };
    if let Err(d) = ord {
        return Err(viol(kind, &what, "M-ORDER", format!("deserialized queue: {}", d), vec!["C15"]));
    }
    // fully usable: a model-checked continuation
    let mut st = State { m: Model::from_snap(&s), q, order_suspended: false, expected_leaks: 0, used_drain_or_clear: false, tables_broken: false };
    control::<Q>(&s, cont)?;
    continuation(&mut st, cont)?;
    Ok(true)
}

/// The same continuation on a queue with the same contents in the same slot order that was
/// built from a vector (the same rebuild, no serde involved): what fails there as well is not a
/// matter of deserialization and is reported under its own properties only.
fn control<Q: QueueApi>(s: &crate::snap::Snap, cont: &[Op]) -> Result<(), Viol> {
    let universe: Vec<u32> = (0..6).collect();
    let pairs: Vec<(u32, i64)> = s.ent.iter().map(|e| (e.0, e.2)).collect();
    let ctl = State::<Q>::construct(&Ctor::FromVec(pairs))?;
    crate::hist::control_run(ctl, cont, &universe, true)
}

fn continuation<Q: QueueApi>(st: &mut State<Q>, cont: &[Op]) -> Result<(), Viol> {
    let universe: Vec<u32> = (0..6).collect();
    let r = catch_unwind(AssertUnwindSafe(|| -> Result<(), Viol> {
        for op in cont {
            st.exec(op)?;
            st.post_check(op.name(), &["C15"], &universe, true)?;
        }
        st.exec(&Op::SortedCheck)?;
        Ok(())
    }));
    match r {
        Ok(Ok(())) => Ok(()),
        Ok(Err(mut v)) => {
            if !v.props.contains(&"C15") {
                v.props.push("C15");
            }
            v.op = format!("deserialize-then-{}", v.op);
            Err(v)
        }
        Err(_) => {
            let msg = take_last_panic().unwrap_or_default();
            Err(viol(Q::KIND, "continuation", "M-PANIC", format!("using a deserialized queue panicked: {}", msg), vec!["C15", "C04"]))
        }
    }
}

/// Round trip of a reachable state, as the same kind and as the other kind, through JSON and tokens.
pub fn check_roundtrip<Q: QueueApi>(r: &Recipe, cont: &[Op]) -> Result<(), Viol> {
    reset_episode();
    let kind = Q::KIND;
    let st = crate::iters::build_checked::<Q>(r)?;
    let res = catch_unwind(AssertUnwindSafe(|| -> Result<(), Viol> {
        let js = st.q.to_json().map_err(|e| viol(kind, "roundtrip", "M-SERDE", format!("serialization failed: {}", e), vec![]))?;
        // same kind
        let back = Q::from_json(&js).map_err(|e| viol(kind, "roundtrip", "M-SERDE", format!("deserializing own output failed: {}", e), vec![]))?;
        if !back.eq_q(&st.q) || !st.q.eq_q(&back) {
            return Err(viol(kind, "roundtrip", "M-SERDE", "JSON round trip != original".into(), vec![]));
        }
        finish_rt::<Q>(back, &st.m, cont)?;
        // other kind
        let other = <Q::Other as QueueApi>::from_json(&js).map_err(|e| viol(kind, "roundtrip-other", "M-SERDE", format!("deserializing as the other kind failed: {}", e), vec![]))?;
        finish_rt::<Q::Other>(other, &st.m, cont)?;
        // tokens (slot order is the serialization order)
        let s = st.q.snapshot();
        let mut toks = vec![serde_test::Token::Seq { len: Some(s.size) }];
        for e in &s.ent {
            toks.push(serde_test::Token::Tuple { len: 2 });
            toks.push(serde_test::Token::U32(e.0));
            toks.push(serde_test::Token::I64(e.2));
            toks.push(serde_test::Token::TupleEnd);
        }
        toks.push(serde_test::Token::SeqEnd);
        st.q.assert_ser_tokens(&toks);
        st.q.assert_de_tokens(&toks);
        let as_other = <Q::Other as QueueApi>::q_from_other(st.q.q_clone());
        as_other.assert_de_tokens(&toks);
        // through the hint-less token source as well
        let pairs: Vec<(u32, i64)> = s.ent.iter().map(|e| (e.0, e.2)).collect();
        let t2 = Q::deserialize_from(PairsDe { pairs: &pairs, hint: false }).map_err(|e| viol(kind, "roundtrip-tokens", "M-SERDE", format!("{}", e), vec![]))?;
        if !t2.eq_q(&st.q) {
            return Err(viol(kind, "roundtrip-tokens", "M-SERDE", "token round trip != original".into(), vec![]));
        }
        finish_rt::<Q>(t2, &st.m, cont)?;
        Ok(())
    }));
    match res {
        Ok(r) => r,
        Err(_) => {
            let msg = take_last_panic().unwrap_or_default();
            Err(viol(kind, "roundtrip", "M-PANIC", format!("round trip panicked: {}", msg), vec!["C15", "C04"]))
        }
    }
}

fn finish_rt<Q2: QueueApi>(q: Q2, src: &Model, cont: &[Op]) -> Result<(), Viol> {
    let s = q.snapshot();
    if let Err(d) = s.tables() {
        std::mem::forget(q);
        return Err(viol(Q2::KIND, "roundtrip", "M-TABLES", d, vec!["C15", "C04"]));
    }
    let m = Model::from_snap(&s);
    if m.pairs() != src.pairs() {
        return Err(viol(Q2::KIND, "roundtrip", "M-CONTENT", format!("round trip contents {:?} != source {:?}", m.pairs(), src.pairs()), vec![]));
    }
    let ord = match Q2::KIND {
        Kind::Pq => s.order_max(),
        Kind::Dpq => s.order_minmax(),
    };
    if let Err(d) = ord {
        return Err(viol(Q2::KIND, "roundtrip", "M-ORDER", d, vec![]));
    }
    let mut st = State { m, q, order_suspended: false, expected_leaks: 0, used_drain_or_clear: false, tables_broken: false };
    control::<Q2>(&s, cont)?;
    continuation(&mut st, cont)
}

fn arb<Q: QueueApi>(pairs: &[(u32, i64)], via: Via, cont: &[Op]) -> Result<bool, Viol> {
    check_arbitrary::<Q>(pairs, via, cont)
}
fn rt<Q: QueueApi>(r: &Recipe, cont: &[Op]) -> Result<(), Viol> {
    check_roundtrip::<Q>(r, cont)
}

fn std_cont(k: usize) -> Vec<Op> {
    let all = vec![
        Op::Push { id: 4, ord: 1 },
        Op::Change { id: 0, ord: 5, k: true },
        Op::Pop { end: End::Max },
        Op::Remove { id: 1, k: false },
        Op::Push { id: 1, ord: 0 },
        Op::PushInc { id: 2, ord: 9 },
        Op::Pop { end: End::Max },
        Op::Pop { end: End::Max },
    ];
    all.into_iter().take(k).collect()
}

/// mode serde: len=L (systematic sequences over 3 ids x 3 priorities up to length L),
/// random=N (longer random sequences), roundtrips=N
pub fn mode_serde(a: &Args) -> i32 {
    let seed = a.u("seed", 1);
    let shard = a.u("shard", 0);
    let nshards = a.u("nshards", 1);
    let maxlen = a.u("len", 4) as usize;
    let nrandom = a.u("random", 300);
    let nrt = a.u("roundtrips", 300);
    let kinds = crate::cli::kinds_of(a);
    let hasher = a.s("hasher", "fixed");
    let mut journal = Journal::open(a);
    let mut sink = Sink::default();
    let (mut evals, mut oks, mut errs, mut with_dups, mut rts) = (0u64, 0u64, 0u64, 0u64, 0u64);
    let mut distinct = std::collections::HashSet::new();
    let mut samples: Vec<serde_json::Value> = Vec::new();
    let vias = [Via::Json, Via::Tokens, Via::TokensNoHint];
    let mut run_arb = |pairs: &[(u32, i64)], kind: Kind, via: Via, cont: &[Op], sink: &mut Sink, journal: &mut Journal| {
        evals += 1;
        let has_dup = {
            let mut ids: Vec<u32> = pairs.iter().map(|p| p.0).collect();
            ids.sort_unstable();
            let l = ids.len();
            ids.dedup();
            l != ids.len()
        };
        if has_dup {
            with_dups += 1;
        }
        if journal.enabled() {
            journal.line(&format!("EP {}", serde_json::json!({"mode":"serde","kind":kind.name()})));
            journal.line(&format!("CASE {}", serde_json::json!({"mode":"serde","what":format!("deserialize/{:?}", via),"props":["C15","C04"],"pairs":pairs,"via":via,"kind":kind})));
        }
        if !pairs.is_empty() {
            distinct.insert((pairs.to_vec(), kind, via as u8));
        }
        match crate::dispatch!(kind, hasher.as_str(), arb, pairs, via, cont) {
            Ok(true) => oks += 1,
            Ok(false) => errs += 1,
            Err(v) => sink.viol(&v.props, &v.sig(), &v.detail, serde_json::json!({"mode":"serde","pairs":pairs,"via":via,"kind":kind,"cont":cont})),
        }
        if journal.enabled() {
            journal.line("EPDONE");
        }
    };
    // systematic
    let alphabet: Vec<(u32, i64)> = (0..3u32).flat_map(|i| (0..3i64).map(move |o| (i, o))).collect();
    let mut idx = 0u64;
    let mut seqs: Vec<Vec<(u32, i64)>> = vec![vec![]];
    let mut level: Vec<Vec<(u32, i64)>> = vec![vec![]];
    for _ in 0..maxlen {
        let mut nxt = Vec::new();
        for s in &level {
            for x in &alphabet {
                let mut t = s.clone();
                t.push(*x);
                nxt.push(t);
            }
        }
        seqs.extend(nxt.iter().cloned());
        level = nxt;
    }
    for s in &seqs {
        for &kind in &kinds {
            for &via in &vias {
                idx += 1;
                if idx % nshards != shard {
                    continue;
                }
                let cont = std_cont((idx % 5) as usize);
                run_arb(s, kind, via, &cont, &mut sink, &mut journal);
                if samples.len() < 2 && s.len() == 4 {
                    samples.push(serde_json::json!({"pairs": s, "via": via, "kind": kind}));
                }
            }
        }
    }
    // random longer sequences
    for i in 0..nrandom {
        let mut rng = Rng::derive(seed, 9000 + shard, i);
        let n = rng.below(60);
        let ids = 1 + rng.below(12);
        let pairs: Vec<(u32, i64)> = (0..n).map(|_| (rng.below(ids) as u32, rng.range(-3, 3))).collect();
        let kind = kinds[rng.below(kinds.len())];
        let via = vias[rng.below(3)];
        run_arb(&pairs, kind, via, &std_cont(rng.below(9)), &mut sink, &mut journal);
    }
    // round trips
    for i in 0..nrt {
        let mut rng = Rng::derive(seed, 9500 + shard, i);
        let n = if rng.chance(1, 2) { rng.below(8) } else { rng.below(120) };
        let np = *rng.pick(&[1i64, 3, 1000]);
        let rec = recipe(&mut rng, n, np);
        let kind = kinds[rng.below(kinds.len())];
        rts += 1;
        evals += 1;
        if journal.enabled() {
            journal.line(&format!("EP {}", serde_json::json!({"mode":"serde","kind":kind.name()})));
            journal.line(&format!("CASE {}", serde_json::json!({"mode":"serde","what":"roundtrip","props":["C15","C04"],"recipe":rec,"kind":kind})));
        }
        if let Err(v) = crate::dispatch!(kind, hasher.as_str(), rt, &rec, &std_cont(rng.below(9))) {
            sink.viol(&v.props, &v.sig(), &v.detail, serde_json::json!({"mode":"serde","recipe":rec,"kind":kind}));
        }
        if samples.len() < 3 && n > 2 && n < 8 {
            samples.push(serde_json::json!({"roundtrip_of": rec, "kind": kind}));
        }
        if journal.enabled() {
            journal.line("EPDONE");
        }
    }
    sink.finish_counts(
        "serde",
        evals,
        distinct.len() as u64 + rts,
        serde_json::json!({
            "deserializations": evals - rts, "accepted": oks, "rejected_with_error": errs, "inputs_with_repeated_items": with_dups,
            "roundtrips": rts, "systematic_max_len": maxlen, "systematic_sequences": seqs.len(),
            "samples": samples,
        }),
    );
    0
}

pub fn replay(rp: &serde_json::Value, sink: &mut Sink) -> i32 {
    let rp = if rp.get("case").is_some() && rp["case"].get("kind").is_some() { rp["case"].clone() } else { rp.clone() };
    let kind: Kind = serde_json::from_value(rp["kind"].clone()).expect("kind");
    if rp.get("pairs").is_some() {
        let pairs: Vec<(u32, i64)> = serde_json::from_value(rp["pairs"].clone()).expect("pairs");
        let via: Via = serde_json::from_value(rp["via"].clone()).unwrap_or(Via::Json);
        let cont: Vec<Op> = rp.get("cont").and_then(|c| serde_json::from_value(c.clone()).ok()).unwrap_or_else(|| std_cont(4));
        if let Err(v) = crate::dispatch!(kind, "fixed", arb, &pairs, via, &cont) {
            sink.viol(&v.props, &v.sig(), &v.detail, rp.clone());
        }
    } else if rp.get("recipe").is_some() {
        let rec: Recipe = serde_json::from_value(rp["recipe"].clone()).expect("recipe");
        if let Err(v) = crate::dispatch!(kind, "fixed", rt, &rec, &std_cont(6)) {
            sink.viol(&v.props, &v.sig(), &v.detail, rp.clone());
        }
    }
    0
}
