//! Owned copy of the hook snapshot and the structural monitors over it (M-TABLES, M-ORDER).

use crate::rng::mix;
use crate::types::{Item, Prio};

#[derive(Clone, Debug, Default)]
pub struct Snap {
    pub size: usize,
    pub map_len: usize,
    pub heap: Vec<usize>,
    pub qp: Vec<usize>,
    /// slot -> (id, payload, ord, tag)
    pub ent: Vec<(u32, u64, i64, u64)>,
}

impl Snap {
    pub fn from_hook(s: priority_queue::verif::VerifSnapshot<'_, Item, Prio>) -> Snap {
        Snap {
            size: s.size,
            map_len: s.map_len,
            ent: s.entries.iter().map(|(i, p)| (i.id(), i.payload, p.ord, p.tag)).collect(),
            heap: s.heap,
            qp: s.qp,
        }
    }

    /// M-TABLES: the index structures the unchecked accesses trust are mutually consistent and
    /// agree with the reported length.
    pub fn tables(&self) -> Result<(), String> {
        let n = self.size;
        if self.map_len != n || self.heap.len() != n || self.qp.len() != n || self.ent.len() != n {
            return Err(format!(
                "lengths disagree: size={} map_len={} heap.len={} qp.len={} entries={}",
                n,
                self.map_len,
                self.heap.len(),
                self.qp.len(),
                self.ent.len()
            ));
        }
        let mut seen = vec![false; n];
        for (p, &s) in self.heap.iter().enumerate() {
            if s >= n {
                return Err(format!("heap[{}]={} out of range (size {})", p, s, n));
            }
            if seen[s] {
                return Err(format!("heap is not a permutation: slot {} twice", s));
            }
            seen[s] = true;
            if self.qp[s] != p {
                return Err(format!("qp[heap[{}]={}]={} != {}", p, s, self.qp[s], p));
            }
        }
        Ok(())
    }

    #[inline]
    fn ord_at(&self, pos: usize) -> i64 {
        self.ent[self.heap[pos]].2
    }

    /// M-ORDER for the binary max-heap. Requires `tables()` to hold.
    pub fn order_max(&self) -> Result<(), String> {
        for p in 1..self.size {
            let par = (p - 1) / 2;
            if self.ord_at(par) < self.ord_at(p) {
                return Err(format!(
                    "max-heap order: pos {} (ord {}) < child pos {} (ord {})",
                    par,
                    self.ord_at(par),
                    p,
                    self.ord_at(p)
                ));
            }
        }
        Ok(())
    }

    /// M-ORDER for the min-max heap, in its defining all-ancestors form: every position on an
    /// even level is <= all its descendants, on an odd level >= all its descendants.
    pub fn order_minmax(&self) -> Result<(), String> {
        for x in 1..self.size {
            let ox = self.ord_at(x);
            let mut a = x;
            while a > 0 {
                a = (a - 1) / 2;
                let lvl = usize::BITS - 1 - (a + 1).leading_zeros();
                let oa = self.ord_at(a);
                if lvl % 2 == 0 {
                    if oa > ox {
                        return Err(format!("min-max order: min-level pos {} (ord {}) > descendant pos {} (ord {})", a, oa, x, ox));
                    }
                } else if oa < ox {
                    return Err(format!("min-max order: max-level pos {} (ord {}) < descendant pos {} (ord {})", a, oa, x, ox));
                }
            }
        }
        Ok(())
    }

    /// Identity of the concrete state as far as behaviour is concerned: both tables and the
    /// (id, ord) stored in every slot (tags and payloads are excluded).
    pub fn state_key(&self) -> u64 {
        let mut h = mix(self.size as u64 ^ 0xABCD);
        for &x in &self.heap {
            h = mix(h ^ x as u64);
        }
        h = mix(h ^ 0x1111);
        for &x in &self.qp {
            h = mix(h ^ x as u64);
        }
        h = mix(h ^ 0x2222);
        for e in &self.ent {
            h = mix(h ^ e.0 as u64);
            h = mix(h ^ e.2 as u64);
        }
        h
    }

    /// Identity of the internal *arrangement*: tables plus the rank pattern of priorities by
    /// slot (which slot holds the smallest, which ties with which), ignoring ids and magnitudes.
    pub fn arrangement_key(&self) -> u64 {
        let mut ords: Vec<i64> = self.ent.iter().map(|e| e.2).collect();
        ords.sort_unstable();
        ords.dedup();
        let mut h = mix(self.size as u64 ^ 0x7777);
        for &x in &self.heap {
            h = mix(h ^ x as u64);
        }
        for e in &self.ent {
            let r = ords.binary_search(&e.2).unwrap_or(0);
            h = mix(h ^ (r as u64) ^ 0x9999);
        }
        h
    }

    pub fn pos_of_id(&self, id: u32) -> Option<usize> {
        let slot = self.ent.iter().position(|e| e.0 == id)?;
        self.qp.get(slot).copied()
    }
    pub fn id_at_pos(&self, pos: usize) -> Option<u32> {
        let slot = *self.heap.get(pos)?;
        self.ent.get(slot).map(|e| e.0)
    }
    pub fn ties(&self) -> usize {
        let mut ords: Vec<i64> = self.ent.iter().map(|e| e.2).collect();
        ords.sort_unstable();
        let n = ords.len();
        ords.dedup();
        n - ords.len()
    }
}
