//! Twin / differential monitors: C14 (equality, clone independence), C17 (capacity management is
//! invisible; clean failure of try_reserve, with allocation-failure injection), C18 (behaviour does
//! not depend on the hasher).

use crate::api::*;
use crate::cli::{Args, Journal, Sink};
use crate::gen;
use crate::hist::*;
use crate::model::Model;
use crate::ops::*;
use crate::rng::Rng;
use crate::types::*;
use std::collections::BTreeMap;
use std::panic::{catch_unwind, AssertUnwindSafe};

fn fnv(s: &str) -> u64 {
    let mut h = 0xcbf29ce484222325u64;
    for b in s.bytes() {
        h = (h ^ b as u64).wrapping_mul(0x100000001b3);
    }
    h
}

// ------------------------------------------------------------------------------------------------
// C14

/// A history that ends with exactly `contents`, by one of several routes.
fn build_history(kind: Kind, contents: &BTreeMap<u32, i64>, style: usize, rng: &mut Rng) -> History {
    let mut pairs: Vec<(u32, i64)> = contents.iter().map(|(k, v)| (*k, *v)).collect();
    let mut ctor = Ctor::New;
    let mut ops: Vec<Op> = Vec::new();
    match style % 10 {
        0 => {
            for &(id, ord) in &pairs {
                ops.push(Op::Push { id, ord });
            }
        }
        1 => {
            rng.shuffle(&mut pairs);
            for &(id, ord) in &pairs {
                ops.push(Op::Push { id, ord });
            }
        }
        2 => {
            // extra elements inserted and removed again: slots end up in a different order
            rng.shuffle(&mut pairs);
            let extra: Vec<u32> = (0..1 + rng.below(5)).map(|i| 10_000 + i as u32).collect();
            for (j, &(id, ord)) in pairs.iter().enumerate() {
                if j < extra.len() {
                    ops.push(Op::Push { id: extra[j], ord: ord + 1 });
                }
                ops.push(Op::Push { id, ord });
            }
            for (j, e) in extra.iter().enumerate() {
                if j < pairs.len() {
                    ops.push(Op::Remove { id: *e, k: j % 2 == 0 });
                }
            }
        }
        3 => {
            rng.shuffle(&mut pairs);
            ctor = Ctor::FromVec(pairs.clone());
        }
        4 => {
            rng.shuffle(&mut pairs);
            let h = pairs.len() / 2;
            for &(id, ord) in &pairs[..h] {
                ops.push(Op::Push { id, ord });
            }
            ops.push(Op::Extend { pairs: pairs[h..].to_vec(), hint: *rng.pick(&SAFE_HINTS) });
        }
        5 => {
            rng.shuffle(&mut pairs);
            let h = pairs.len() / 3;
            for &(id, ord) in &pairs[..h] {
                ops.push(Op::Push { id, ord });
            }
            ops.push(Op::Append { pairs: pairs[h..].to_vec(), cap: 0 });
        }
        6 => {
            // wrong priorities first, corrected afterwards
            rng.shuffle(&mut pairs);
            for &(id, ord) in &pairs {
                ops.push(Op::Push { id, ord: ord.wrapping_add(3) });
            }
            rng.shuffle(&mut pairs);
            for (j, &(id, ord)) in pairs.iter().enumerate() {
                ops.push(if j % 2 == 0 { Op::Change { id, ord, k: true } } else { Op::ChangeBy { id, ord, k: false } });
            }
        }
        7 => {
            ctor = Ctor::WithCapacity(1000);
            rng.shuffle(&mut pairs);
            for &(id, ord) in &pairs {
                ops.push(Op::Push { id, ord });
            }
            ops.push(Op::Reserve(500));
        }
        8 => {
            // a bigger queue cut down by retain
            rng.shuffle(&mut pairs);
            for &(id, ord) in &pairs {
                ops.push(Op::Push { id, ord });
            }
            for j in 0..4u32 {
                ops.push(Op::Push { id: 20_000 + j, ord: j as i64 });
            }
            ops.push(Op::Retain { pred: Pred::Ids(contents.keys().copied().collect()) });
            ops.push(Op::Shrink);
        }
        _ => {
            rng.shuffle(&mut pairs);
            ctor = Ctor::FromOther(pairs.clone());
        }
    }
    History { kind, hasher: "fixed".into(), ctor, ops, universe: 4 }
}

fn realize<Q: QueueApi>(h: &History) -> Result<State<Q>, Viol> {
    let r = catch_unwind(AssertUnwindSafe(|| -> Result<State<Q>, Viol> {
        let mut st = State::<Q>::construct(&h.ctor)?;
        for op in &h.ops {
            st.exec(op)?;
        }
        Ok(st)
    }));
    match r {
        Ok(x) => x,
        // a panic while building a queue with ordinary operations is not a matter of equality
        Err(_) => Err(crate::hist::panic_viol(Q::KIND, "build", &[])),
    }
}

fn eq_viol(kind: Kind, what: &str, detail: String) -> Viol {
    Viol { monitor: "M-EQ", op: what.to_string(), kind: kind.name(), detail, props: vec!["C14"] }
}

fn cross_eq<A, B>(a: &A, b: &B) -> (bool, bool)
where
    A: PartialEq<B>,
{
    (a == b, a != b)
}

#[derive(Default)]
struct EqCov {
    pairs_equal: u64,
    pairs_differ: u64,
    cross_hasher: u64,
    transitive: u64,
    clone_twins: u64,
    twin_ops: u64,
    independence: u64,
}

fn eq_case<Q: QueueApi>(seed: u64, idx: u64, cov: &mut EqCov) -> Result<serde_json::Value, (Viol, serde_json::Value)> {
    reset_episode();
    let mut rng = Rng::derive(seed, 11_000, idx);
    let kind = Q::KIND;
    let n = match rng.below(4) {
        0 => rng.below(4),
        1 => rng.below(10),
        _ => rng.below(65),
    };
    let nprio = *rng.pick(&[1i64, 2, 5, 1000]);
    let mut contents: BTreeMap<u32, i64> = BTreeMap::new();
    while contents.len() < n {
        contents.insert(rng.below(3 * n + 3) as u32, rng.range(0, nprio - 1));
    }
    let (s1, s2, s3) = (rng.below(10), rng.below(10), rng.below(10));
    let h1 = build_history(kind, &contents, s1, &mut rng);
    let h2 = build_history(kind, &contents, s2, &mut rng);
    let h3 = build_history(kind, &contents, s3, &mut rng);
    let wit = serde_json::json!({"mode":"eq","kind":kind,"seed":seed,"index":idx,"contents":contents,"styles":[s1,s2,s3]});
    let w = |v: Viol| (v, wit.clone());
    let a = realize::<Q>(&h1).map_err(w)?;
    let b = realize::<Q>(&h2).map_err(w)?;
    let c = realize::<Q>(&h3).map_err(w)?;
    cov.pairs_equal += 1;
    for (x, y, nm) in [(&a, &b, "a,b"), (&b, &a, "b,a"), (&b, &c, "b,c"), (&a, &c, "a,c"), (&a, &a, "a,a")] {
        if !x.q.eq_q(&y.q) || x.q.ne_q(&y.q) {
            return Err(w(eq_viol(kind, "equal-contents", format!("queues with the same {} pairs built by routes {}/{}/{} compare unequal ({})", n, s1, s2, s3, nm))));
        }
    }
    cov.transitive += 1;
    // contents differing in exactly one priority / one item
    if n > 0 {
        let victim = *contents.keys().nth(rng.below(n)).unwrap();
        let mut d = realize::<Q>(&h2).map_err(w)?;
        d.exec(&Op::Change { id: victim, ord: contents[&victim] + 1, k: true }).map_err(w)?;
        cov.pairs_differ += 1;
        if d.q.eq_q(&a.q) || a.q.eq_q(&d.q) || !d.q.ne_q(&a.q) {
            return Err(w(eq_viol(kind, "one-priority-differs", format!("queues differing in the priority of item {} compare equal", victim))));
        }
        let mut e = realize::<Q>(&h3).map_err(w)?;
        e.exec(&Op::Remove { id: victim, k: false }).map_err(w)?;
        cov.pairs_differ += 1;
        if e.q.eq_q(&a.q) || a.q.eq_q(&e.q) {
            return Err(w(eq_viol(kind, "one-item-missing", format!("queues differing in item {} compare equal", victim))));
        }
        // same size, one item replaced by another with the same priority
        e.exec(&Op::Push { id: 30_000, ord: contents[&victim] }).map_err(w)?;
        cov.pairs_differ += 1;
        if e.q.eq_q(&a.q) || a.q.eq_q(&e.q) {
            return Err(w(eq_viol(kind, "one-item-replaced", format!("queues of equal length differing in one item ({} vs 30000) compare equal", victim))));
        }
    }
    {
        let mut e = realize::<Q>(&h1).map_err(w)?;
        e.exec(&Op::Push { id: 31_000, ord: 0 }).map_err(w)?;
        cov.pairs_differ += 1;
        if e.q.eq_q(&a.q) || a.q.eq_q(&e.q) {
            return Err(w(eq_viol(kind, "one-item-extra", "a queue with one extra item compares equal".to_string())));
        }
    }
    // clone: equal, behaves identically under the same history, independent
    let mut src = realize::<Q>(&h1).map_err(w)?;
    // half of the clones are made with clone_from into a queue of a different length
    let cq = if rng.chance(1, 2) {
        src.q.q_clone()
    } else {
        let mut d = Q::q_new();
        let k = match rng.below(3) {
            0 => 0,
            1 => n / 2,
            _ => n + 1 + rng.below(4),
        };
        for j in 0..k {
            d.push(Item::new(60_000 + j as u32), Prio::new(rng.range(0, 5)));
        }
        d.q_clone_from(&src.q);
        d
    };
    let mut cl = State { q: cq, m: src.m.clone(), order_suspended: false, expected_leaks: 0, used_drain_or_clear: false, tables_broken: false };
    if !cl.q.eq_q(&src.q) || !src.q.eq_q(&cl.q) {
        return Err(w(eq_viol(kind, "clone", "a clone is not equal to its source".to_string())));
    }
    cov.clone_twins += 1;
    let mut prng = rng.clone();
    let mut prof = gen::profile("churn", &mut prng);
    prof.universe = (3 * n as u32 + 3).min(40);
    prof.target = n;
    let universe: Vec<u32> = (0..prof.universe.min(16)).collect();
    let steps = 10 + rng.below(30);
    // a source that is already malformed is reported under its own properties, not as a clone matter
    let mut snap = src.post_check("build", &[], &universe, false).map_err(w)?;
    let mut twin_ops = Vec::new();
    for _ in 0..steps {
        let op = {
            let mut g = gen::Gen { rng: &mut rng, prof: &prof };
            g.op::<Q>(&src.m, &snap, src.order_suspended)
        };
        // leaked guards are legal but make the order unspecified: keep the twin comparison exact
        let op = match op {
            Op::IterMut { n, writes, touch, via_ref, back, .. } => Op::IterMut { n, writes, touch, leak: false, via_ref, back },
            o => o,
        };
        twin_ops.push(op.clone());
        cov.twin_ops += 1;
        let wit2 = serde_json::json!({"mode":"eq","kind":kind,"seed":seed,"index":idx,"contents":contents,"styles":[s1,s2,s3],"twin_ops":twin_ops});
        let w2 = |v: Viol| (v, wit2.clone());
        // the source goes first: what fails (or panics) there is not a matter of the clone
        let on_src = catch_unwind(AssertUnwindSafe(|| -> Result<(Ret, crate::snap::Snap), Viol> {
            let ra = src.exec(&op)?;
            let s = src.post_check(op.name(), op.extra_props(), &universe, false)?;
            Ok((ra, s))
        }));
        let (ra, s_new) = match on_src {
            Ok(x) => x.map_err(w2)?,
            Err(_) => {
                let v = crate::hist::panic_viol(kind, op.name(), &[]);
                std::mem::forget(src);
                std::mem::forget(cl);
                return Err(w2(v));
            }
        };
        snap = s_new;
        let rb = cl.exec(&op).map_err(|mut v| {
            v.props.push("C14");
            w2(v)
        })?;
        let sb = cl.post_check(op.name(), &["C14"], &universe, false).map_err(w2)?;
        if ra != rb {
            return Err(w2(eq_viol(kind, "clone-diverges", format!("{:?} returned {:?} on the source but {:?} on the clone", op, ra, rb))));
        }
        if snap.state_key() != sb.state_key() && Model::from_snap(&snap).pairs() != Model::from_snap(&sb).pairs() {
            return Err(w2(eq_viol(kind, "clone-diverges", format!("contents of source and clone differ after {:?}", op))));
        }
    }
    // independence: mutate one, the other must not change
    let before = cl.q.snapshot();
    for op in [Op::Push { id: 40_000, ord: 1 }, Op::Pop { end: End::Max }, Op::Clear] {
        let _ = src.exec(&op);
    }
    cov.independence += 1;
    let after = cl.q.snapshot();
    if before.state_key() != after.state_key() || before.ent != after.ent {
        return Err(w(eq_viol(kind, "clone-independence", "mutating the source changed its clone".to_string())));
    }
    cl.post_check("clone", &["C14"], &universe, true).map_err(w)?;
    Ok(wit)
}

fn eq_cross_case(seed: u64, idx: u64, cov: &mut EqCov) -> Result<(), (Viol, serde_json::Value)> {
    reset_episode();
    let mut rng = Rng::derive(seed, 12_000, idx);
    let n = rng.below(40);
    let mut contents: BTreeMap<u32, i64> = BTreeMap::new();
    while contents.len() < n {
        contents.insert(rng.below(2 * n + 2) as u32, rng.range(0, 3));
    }
    let wit = serde_json::json!({"mode":"eq","cross":true,"seed":seed,"index":idx,"contents":contents});
    macro_rules! cross {
        ($k:ident, $H1:ty, $H2:ty, $kind:expr) => {{
            let (s1, s2) = (rng.below(9), rng.below(9));
            let h1 = build_history($kind, &contents, s1, &mut rng);
            let h2 = build_history($kind, &contents, s2, &mut rng);
            let a = realize::<$k<$H1>>(&h1).map_err(|v| (v, wit.clone()))?;
            let mut b = realize::<$k<$H2>>(&h2).map_err(|v| (v, wit.clone()))?;
            cov.cross_hasher += 1;
            let (e1, n1) = cross_eq(&a.q, &b.q);
            let (e2, n2) = cross_eq(&b.q, &a.q);
            if !e1 || !e2 || n1 || n2 {
                return Err((eq_viol($kind, "cross-hasher", format!("equal contents under hashers {} and {} compare unequal", <$H1 as HasherCfg>::NAME, <$H2 as HasherCfg>::NAME)), wit.clone()));
            }
            b.exec(&Op::Push { id: 50_000, ord: 1 }).map_err(|v| (v, wit.clone()))?;
            let (e1, _) = cross_eq(&a.q, &b.q);
            let (e2, _) = cross_eq(&b.q, &a.q);
            if e1 || e2 {
                return Err((eq_viol($kind, "cross-hasher", "different contents under different hashers compare equal".to_string()), wit.clone()));
            }
        }};
    }
    cross!(PqOf, StdRandom, FixedState, Kind::Pq);
    cross!(DpqOf, FixedState, ConstState, Kind::Dpq);
    cross!(PqOf, XxState, Low2State, Kind::Pq);
    cross!(DpqOf, BrownState, StdRandom, Kind::Dpq);
    Ok(())
}

fn eq_run<Q: QueueApi>(seed: u64, idx: u64, cov: &mut EqCov) -> Result<serde_json::Value, (Viol, serde_json::Value)> {
    match catch_unwind(AssertUnwindSafe(|| eq_case::<Q>(seed, idx, cov))) {
        Ok(r) => r,
        Err(_) => {
            let msg = take_last_panic().unwrap_or_default();
            Err((Viol { monitor: "M-PANIC", op: "eq/clone".into(), kind: Q::KIND.name(), detail: format!("panic: {}", msg), props: vec!["C14", "C04"] }, serde_json::json!({"mode":"eq","seed":seed,"index":idx,"kind":Q::KIND})))
        }
    }
}

/// mode eq: cases=N
pub fn mode_eq(a: &Args) -> i32 {
    let seed = a.u("seed", 1);
    let shard = a.u("shard", 0);
    let cases = a.u("cases", 300);
    let start = a.u("start", 0);
    let only = a.kv.get("only").map(|v| v.parse::<u64>().unwrap());
    let kinds = crate::cli::kinds_of(a);
    let hashers = a.list("hashers", "fixed,std,low2");
    let mut journal = Journal::open(a);
    let mut sink = Sink::default();
    let mut cov = EqCov::default();
    let mut samples = Vec::new();
    let mut distinct = std::collections::HashSet::new();
    for i in start..cases {
        if let Some(o) = only {
            if i != o {
                continue;
            }
        }
        let idx = shard * 1_000_003 + i;
        let kind = kinds[(i as usize) % kinds.len()];
        let hasher = hashers[(i as usize / kinds.len()) % hashers.len()].clone();
        journal.line(&format!("EP {}", serde_json::json!({"mode":"eq","index":i,"kind":kind.name(),"hasher":hasher})));
        if journal.enabled() {
            journal.line(&format!("CASE {}", serde_json::json!({"mode":"eq","what":"eq/clone","props":["C14","C04"],"seed":seed,"index":idx,"kind":kind,"hasher":hasher})));
        }
        match crate::dispatch!(kind, hasher.as_str(), eq_run, seed, idx, &mut cov) {
            Ok(w) => {
                if !w["contents"].as_object().map_or(true, |o| o.is_empty()) {
                    distinct.insert(fnv(&w.to_string()));
                }
                if samples.len() < 3 && w["contents"].as_object().map_or(0, |o| o.len()) > 2 && w["contents"].as_object().map_or(0, |o| o.len()) < 8 {
                    samples.push(w);
                }
            }
            Err((v, w)) => sink.viol(&v.props, &v.sig(), &v.detail, w),
        }
        if i % 4 == 0 {
            if let Err((v, w)) = catch_unwind(AssertUnwindSafe(|| eq_cross_case(seed, idx, &mut cov))).unwrap_or_else(|_| {
                Err((Viol { monitor: "M-PANIC", op: "eq/cross".into(), kind: "both", detail: take_last_panic().unwrap_or_default(), props: vec!["C14", "C04"] }, serde_json::json!({"mode":"eq","cross":true,"seed":seed,"index":idx})))
            }) {
                sink.viol(&v.props, &v.sig(), &v.detail, w);
            }
        }
        journal.line("EPDONE");
    }
    let evals = cov.pairs_equal * 5 + cov.pairs_differ * 2 + cov.cross_hasher * 4 + cov.twin_ops;
    sink.finish_counts(
        "eq",
        evals,
        distinct.len() as u64,
        serde_json::json!({
            "content_sets": cov.pairs_equal, "equal_pairs_checked": cov.pairs_equal * 5, "minimally_different_pairs_checked": cov.pairs_differ,
            "cross_hasher_type_pairs": cov.cross_hasher, "transitivity_triples": cov.transitive, "clone_twins": cov.clone_twins,
            "clone_twin_ops": cov.twin_ops, "independence_checks": cov.independence, "samples": samples,
        }),
    );
    0
}

pub fn replay_eq(rp: &serde_json::Value, sink: &mut Sink) -> i32 {
    let rp = if rp.get("case").is_some() { rp["case"].clone() } else { rp.clone() };
    let seed = rp["seed"].as_u64().unwrap_or(1);
    let idx = rp["index"].as_u64().unwrap_or(0);
    let mut cov = EqCov::default();
    if rp.get("cross").is_some() {
        if let Err((v, w)) = eq_cross_case(seed, idx, &mut cov) {
            sink.viol(&v.props, &v.sig(), &v.detail, w);
        }
        return 0;
    }
    let kind: Kind = serde_json::from_value(rp["kind"].clone()).unwrap_or(Kind::Pq);
    let hasher = rp.get("hasher").and_then(|h| h.as_str()).unwrap_or("fixed").to_string();
    if let Err((v, w)) = crate::dispatch!(kind, hasher.as_str(), eq_run, seed, idx, &mut cov) {
        sink.viol(&v.props, &v.sig(), &v.detail, w);
    }
    0
}

// ------------------------------------------------------------------------------------------------
// C17

fn is_cap_op(op: &Op) -> bool {
    matches!(op, Op::Reserve(_) | Op::ReserveExact(_) | Op::TryReserve(_) | Op::TryReserveExact(_) | Op::Shrink)
}

fn gen_history<Q: QueueApi>(rng: &mut Rng, prof: &gen::Profile, stats: &mut Stats) -> (Vec<Report>, History, Vec<Ret>) {
    let empty = Model::default();
    let ctor = {
        let mut g = gen::Gen { rng, prof };
        g.ctor(&empty)
    };
    let steps = prof.steps;
    let mut cfg = EpisodeCfg { universe: prof.universe.min(24), full_every: 4, sorted_every: 16, max_viols: 2, journal: None };
    run_history::<Q>(
        &ctor,
        |m, s, susp, step| {
            if step >= steps {
                return None;
            }
            let mut g = gen::Gen { rng, prof };
            let op = g.op::<Q>(m, s, susp);
            // a leaked guard leaves the order unspecified, and then capacity changes / hashers may
            // legitimately show through: keep twin histories free of them
            Some(match op {
                Op::IterMut { n, writes, touch, via_ref, back, .. } => Op::IterMut { n, writes, touch, leak: false, via_ref, back },
                o => o,
            })
        },
        &mut cfg,
        stats,
    )
}

fn run_exp<Q: QueueApi>(h: &History, stats: &mut Stats) -> (Vec<Report>, Vec<Ret>) {
    run_explicit::<Q>(h, 4, 16, stats, None)
}

fn cap_twin<Q: QueueApi>(seed: u64, idx: u64, stats: &mut Stats, cov: &mut CapCov, sink: &mut Sink) {
    let mut rng = Rng::derive(seed, 13_000, idx);
    let pname = *rng.pick(&["churn", "growth", "growth-ties", "bulk-small", "storm"]);
    let mut prof = gen::profile(pname, &mut rng);
    // capacity calls interleaved anywhere
    let ci = gen::CLASSES.iter().position(|c| *c == gen::Class::Capacity).unwrap();
    prof.w[ci] = 25;
    prof.steps = prof.steps.min(150);
    let (reports, hist, trace) = gen_history::<Q>(&mut rng, &prof, stats);
    for r in &reports {
        sink.report(r);
    }
    if !reports.is_empty() {
        return;
    }
    // the twin never makes a capacity call
    let twin_ctor = match &hist.ctor {
        Ctor::WithCapacity(_) => Ctor::New,
        Ctor::WithCapacityAndDefaultHasher(_) => Ctor::WithDefaultHasher,
        Ctor::WithCapacityAndHasher(_) => Ctor::WithHasher,
        c => c.clone(),
    };
    let keep: Vec<usize> = (0..hist.ops.len()).filter(|i| !is_cap_op(&hist.ops[*i])).collect();
    cov.cap_calls += (hist.ops.len() - keep.len()) as u64;
    let mut twin_ops: Vec<Op> = keep.iter().map(|i| hist.ops[*i].clone()).collect();
    // Append carries its own with_capacity: strip it in the twin as well
    for op in twin_ops.iter_mut() {
        if let Op::Append { pairs, .. } = op {
            *op = Op::Append { pairs: pairs.clone(), cap: 0 };
        }
    }
    let twin = History { kind: hist.kind, hasher: hist.hasher.clone(), ctor: twin_ctor, ops: twin_ops, universe: hist.universe };
    let (r2, t2) = run_exp::<Q>(&twin, stats);
    cov.twins += 1;
    for r in &r2 {
        sink.report(r);
    }
    if !r2.is_empty() {
        return;
    }
    for (j, i) in keep.iter().enumerate() {
        cov.twin_compares += 1;
        if trace.get(*i) != t2.get(j) {
            let v = Viol {
                monitor: "M-TWIN",
                op: hist.ops[*i].name().to_string(),
                kind: Q::KIND.name(),
                detail: format!("step {} ({:?}) returned {:?} but {:?} on the twin that never made a capacity call", i, hist.ops[*i], trace.get(*i), t2.get(j)),
                props: vec!["C17"],
            };
            sink.viol(&v.props, &v.sig(), &v.detail, serde_json::json!({"mode":"hist","history":hist,"twin":twin}));
            return;
        }
    }
    if cov.samples.len() < 2 && hist.ops.iter().any(is_cap_op) {
        let mut h = hist.clone();
        h.ops.truncate(14);
        cov.samples.push(serde_json::to_value(&h).unwrap());
    }
}

#[derive(Default)]
struct CapCov {
    twins: u64,
    twin_compares: u64,
    cap_calls: u64,
    inj_cases: u64,
    inj_err: u64,
    inj_ok: u64,
    refused_midrange: u64,
    overflow_requests: u64,
    samples: Vec<serde_json::Value>,
}

/// try_reserve under an allocator that is made to fail (only in worker_alloc).
fn cap_inject<Q: QueueApi>(seed: u64, idx: u64, cov: &mut CapCov, journal: &mut Journal) -> Result<(), (Viol, serde_json::Value)> {
    reset_episode();
    let mut rng = Rng::derive(seed, 14_000, idx);
    let n = rng.below(60);
    let rec = crate::iters::recipe(&mut rng, n, 4);
    let mut st = crate::iters::build_checked::<Q>(&rec).map_err(|v| (v, serde_json::json!({"mode":"cap","kind":Q::KIND,"seed":seed,"index":idx,"precheck":true})))?;
    let amount = *rng.pick(&[1usize, 10, 1000, 100_000, 1 << 22]);
    let exact = rng.chance(1, 2);
    let variant = rng.below(4);
    let nth = rng.below(4) as u64;
    let wit = serde_json::json!({"mode":"cap","kind":Q::KIND,"seed":seed,"index":idx,"recipe":rec,"amount":amount,"exact":exact,"variant":variant,"nth":nth});
    if journal.enabled() {
        journal.line(&format!("CASE {}", serde_json::json!({"mode":"cap","what":if exact {"try_reserve_exact"} else {"try_reserve"},"props":["C17","C04"],"case":wit})));
    }
    let kind = Q::KIND;
    let mk = |what: &str, d: String| (Viol { monitor: "M-ALLOCFAIL", op: what.to_string(), kind: kind.name(), detail: d, props: vec!["C17"] }, wit.clone());
    let universe: Vec<u32> = (0..12).collect();
    let cont = [Op::Push { id: 70, ord: 2 }, Op::Pop { end: End::Max }, Op::Change { id: 1, ord: 9, k: true }, Op::Remove { id: 2, k: false }, Op::Push { id: 71, ord: -1 }, Op::SortedCheck];
    {
        // control: the same continuation on a clone that never sees the reservation; what fails
        // there is reported under its own properties and the case ends
        let ctl = State { q: st.q.q_clone(), m: st.m.clone(), order_suspended: false, expected_leaks: 0, used_drain_or_clear: false, tables_broken: false };
        crate::hist::control_run(ctl, &cont, &universe, false).map_err(|v| (v, wit.clone()))?;
    }
    let before = st.q.snapshot();
    let cap_before = st.q.capacity();
    cov.inj_cases += 1;
    // arm only around the call: the harness allocates nothing in between
    let (req, res, seen, refused) = match variant {
        0 | 1 => {
            // fail the nth allocation made by the call
            crate::alloc_ctl::arm(nth, usize::MAX);
            let r = catch_unwind(AssertUnwindSafe(|| if exact { st.q.try_reserve_exact(amount) } else { st.q.try_reserve(amount) }));
            let (seen, refused) = crate::alloc_ctl::disarm();
            (amount, r, seen, refused)
        }
        2 => {
            // a mid-range request that the machine cannot serve: every allocation >= 1 MiB fails
            let big = *rng.pick(&[1usize << 32, 1usize << 40, 1usize << 50]);
            cov.refused_midrange += 1;
            crate::alloc_ctl::arm(u64::MAX, 1 << 20);
            let r = catch_unwind(AssertUnwindSafe(|| if exact { st.q.try_reserve_exact(big) } else { st.q.try_reserve(big) }));
            let (seen, refused) = crate::alloc_ctl::disarm();
            (big, r, seen, refused)
        }
        _ => {
            // capacity overflow: no allocation can even be attempted
            let huge = *rng.pick(&[usize::MAX, usize::MAX - 1, usize::MAX / 2, usize::MAX / 8, (isize::MAX as usize) / 4]);
            cov.overflow_requests += 1;
            crate::alloc_ctl::arm(u64::MAX, usize::MAX);
            let r = catch_unwind(AssertUnwindSafe(|| if exact { st.q.try_reserve_exact(huge) } else { st.q.try_reserve(huge) }));
            let (seen, refused) = crate::alloc_ctl::disarm();
            (huge, r, seen, refused)
        }
    };
    let _ = seen;
    let what = if exact { "try_reserve_exact" } else { "try_reserve" };
    match res {
        Err(_) => {
            let msg = take_last_panic().unwrap_or_default();
            std::mem::forget(st);
            return Err(mk(what, format!("{}({}) panicked instead of returning an error: {}", what, req, msg)));
        }
        Ok(Ok(())) => {
            cov.inj_ok += 1;
            // (an implementation may retry a refused over-allocation with the exact amount: Ok after a
            // refusal is legal as long as the capacity post-condition holds)
            if st.q.capacity() < st.q.len().saturating_add(req) {
                return Err(mk(what, format!("{}({}) = Ok but capacity {} < len {} + {}", what, req, st.q.capacity(), st.q.len(), req)));
            }
        }
        Ok(Err(_)) => {
            cov.inj_err += 1;
            if refused == 0 && variant < 2 {
                return Err(mk(what, format!("{}({}) failed although no allocation was refused", what, req)));
            }
        }
    }
    // unchanged and usable
    let after = st.q.snapshot();
    if let Err(d) = after.tables() {
        std::mem::forget(st);
        return Err(mk(what, format!("tables inconsistent after a failed reservation: {}", d)));
    }
    if after.ent != before.ent || after.heap != before.heap || after.qp != before.qp {
        return Err(mk(what, "the queue changed across a try_reserve call".to_string()));
    }
    let _ = cap_before;
    for op in &cont {
        st.exec(op).map_err(|mut v| {
            v.props.push("C17");
            (v, wit.clone())
        })?;
        st.post_check(op.name(), &["C17"], &universe, true).map_err(|v| (v, wit.clone()))?;
    }
    Ok(())
}

fn cap_twin_d<Q: QueueApi>(seed: u64, idx: u64, stats: &mut Stats, cov: &mut CapCov, sink: &mut Sink) {
    cap_twin::<Q>(seed, idx, stats, cov, sink)
}
fn cap_inject_d<Q: QueueApi>(seed: u64, idx: u64, cov: &mut CapCov, journal: &mut Journal) -> Result<(), (Viol, serde_json::Value)> {
    cap_inject::<Q>(seed, idx, cov, journal)
}

/// mode cap: twins=N inject=N (inject only in worker_alloc)
pub fn mode_cap(a: &Args) -> i32 {
    let seed = a.u("seed", 1);
    let shard = a.u("shard", 0);
    let twins = a.u("twins", 200);
    let inject = a.u("inject", 0);
    let start = a.u("start", 0);
    let kinds = crate::cli::kinds_of(a);
    let hasher = a.s("hasher", "fixed");
    if inject > 0 && !crate::alloc_ctl::installed() {
        eprintln!("cap inject>0 must run in worker_alloc");
        return 2;
    }
    let mut journal = Journal::open(a);
    let mut sink = Sink::default();
    let mut stats = Stats::default();
    let mut cov = CapCov::default();
    for i in start..twins.max(inject) {
        let idx = shard * 1_000_003 + i;
        let kind = kinds[(i as usize) % kinds.len()];
        journal.line(&format!("EP {}", serde_json::json!({"mode":"cap","index":i,"kind":kind.name(),"hasher":hasher})));
        if i < twins {
            crate::dispatch!(kind, hasher.as_str(), cap_twin_d, seed, idx, &mut stats, &mut cov, &mut sink);
        }
        if i < inject {
            if let Err((v, w)) = crate::dispatch!(kind, hasher.as_str(), cap_inject_d, seed, idx, &mut cov, &mut journal) {
                sink.viol(&v.props, &v.sig(), &v.detail, w);
            }
        }
        journal.line("EPDONE");
    }
    let mut st = stats.to_json();
    st["capacity_twins"] = serde_json::json!(cov.twins);
    st["twin_return_values_compared"] = serde_json::json!(cov.twin_compares);
    st["capacity_calls_in_histories"] = serde_json::json!(cov.cap_calls);
    st["alloc_failure_injections"] = serde_json::json!(cov.inj_cases);
    st["injections_returning_err"] = serde_json::json!(cov.inj_err);
    st["injections_returning_ok"] = serde_json::json!(cov.inj_ok);
    st["midrange_requests_refused_by_allocator"] = serde_json::json!(cov.refused_midrange);
    st["overflowing_requests"] = serde_json::json!(cov.overflow_requests);
    st["samples"] = serde_json::Value::Array(cov.samples.clone());
    sink.finish_counts("cap", stats.ops + cov.inj_cases, stats.state_op.len() as u64 + cov.inj_cases, st);
    0
}

pub fn replay_cap(rp: &serde_json::Value, sink: &mut Sink, journal: &mut Journal) -> i32 {
    let c = if rp["case"].get("case").is_some() { rp["case"]["case"].clone() } else if rp.get("case").is_some() { rp["case"].clone() } else { rp.clone() };
    let seed = c["seed"].as_u64().unwrap_or(1);
    let idx = c["index"].as_u64().unwrap_or(0);
    let kind: Kind = serde_json::from_value(c["kind"].clone()).unwrap_or(Kind::Pq);
    let mut cov = CapCov::default();
    if !crate::alloc_ctl::installed() {
        eprintln!("replay of an allocation-failure case needs worker_alloc");
        return 2;
    }
    if let Err((v, w)) = crate::dispatch!(kind, "fixed", cap_inject_d, seed, idx, &mut cov, journal) {
        sink.viol(&v.props, &v.sig(), &v.detail, w);
    }
    0
}

// ------------------------------------------------------------------------------------------------
// C18

fn rets_tie_explained(a: &Ret, b: &Ret) -> bool {
    match (a, b) {
        (Ret::Pair(_, o1), Ret::Pair(_, o2)) => o1 == o2,
        (Ret::Seq(x), Ret::Seq(y)) => {
            // same priorities in the same order (sorted consumption), or the same multiset (arbitrary order)
            let ox: Vec<i64> = x.iter().map(|p| p.1).collect();
            let oy: Vec<i64> = y.iter().map(|p| p.1).collect();
            if ox == oy {
                return true;
            }
            let (mut sx, mut sy) = (x.clone(), y.clone());
            sx.sort_unstable();
            sy.sort_unstable();
            sx == sy
        }
        _ => false,
    }
}

fn gen_hist_d<Q: QueueApi>(rng: &mut Rng, prof: &gen::Profile, stats: &mut Stats) -> (Vec<Report>, History, Vec<Ret>) {
    gen_history::<Q>(rng, prof, stats)
}
fn run_exp_d<Q: QueueApi>(h: &History, stats: &mut Stats) -> (Vec<Report>, Vec<Ret>) {
    run_exp::<Q>(h, stats)
}

/// mode hashers: histories=N
pub fn mode_hashers(a: &Args) -> i32 {
    let seed = a.u("seed", 1);
    let shard = a.u("shard", 0);
    let n = a.u("histories", 100);
    let start = a.u("start", 0);
    let kinds = crate::cli::kinds_of(a);
    let all = ["std", "fixed", "xx", "brown", "const", "low2"];
    let mut journal = Journal::open(a);
    let mut sink = Sink::default();
    let mut stats = Stats::default();
    let (mut compared, mut tie_div, mut runs, mut tie_free) = (0u64, 0u64, 0u64, 0u64);
    let mut per_hasher: BTreeMap<&str, u64> = BTreeMap::new();
    let mut samples = Vec::new();
    for i in start..n {
        let mut rng = Rng::derive(seed, 15_000 + shard, i);
        let kind = kinds[(i as usize) % kinds.len()];
        let pname = *rng.pick(&["churn", "churn-single", "growth", "growth-ties", "bulk-small", "storm"]);
        let mut prof = gen::profile(pname, &mut rng);
        prof.universe = prof.universe.min(120);
        prof.target = prof.target.min(100);
        prof.bulk_max = prof.bulk_max.min(80);
        prof.steps = prof.steps.min(160);
        let unique = rng.chance(1, 3);
        if unique {
            // tie-free histories: traces must be identical
            prof.ord_lo = -1_000_000_000;
            prof.ord_hi = 1_000_000_000;
            prof.extreme_ords = false;
            tie_free += 1;
        }
        let ref_hasher = *rng.pick(&["fixed", "std"]);
        journal.line(&format!("EP {}", serde_json::json!({"mode":"hashers","index":i,"kind":kind.name(),"hasher":ref_hasher})));
        let (reports, hist, trace) = crate::dispatch!(kind, ref_hasher, gen_hist_d, &mut rng, &prof, &mut stats);
        runs += 1;
        *per_hasher.entry(ref_hasher).or_insert(0) += 1;
        let ref_clean = reports.is_empty();
        for r in &reports {
            sink.report(r);
        }
        for h in all {
            if h == ref_hasher && h != "std" {
                continue;
            }
            let mut hh = hist.clone();
            hh.hasher = h.to_string();
            if journal.enabled() {
                journal.line(&format!("CASE {}", serde_json::json!({"mode":"hist","what":format!("hasher/{}", h),"props":["C18","C04"],"history":hh})));
            }
            let (r2, t2) = crate::dispatch!(kind, h, run_exp_d, &hh, &mut stats);
            runs += 1;
            *per_hasher.entry(h).or_insert(0) += 1;
            if r2.is_empty() && !ref_clean {
                // the reference hasher misbehaves on this history but this one does not: the
                // behaviour depends on the hasher
                if let Some(r) = reports.first() {
                    let mut v = r.viol.clone();
                    if !v.props.contains(&"C18") {
                        v.props.push("C18");
                    }
                    let sig = format!("hasher:{}-but-not-{}/{}", ref_hasher, h, v.sig());
                    sink.viol(&v.props, &sig, &v.detail, serde_json::json!({"mode":"hist","step":r.step,"history":r.history,"clean_under":h}));
                }
            }
            if !r2.is_empty() {
                for r in &r2 {
                    if ref_clean {
                        // only this hasher misbehaves: the behaviour depends on the hasher
                        let mut v = r.viol.clone();
                        if !v.props.contains(&"C18") {
                            v.props.push("C18");
                        }
                        let sig = format!("hasher:{}/{}", h, v.sig());
                        sink.viol(&v.props, &sig, &v.detail, serde_json::json!({"mode":"hist","step":r.step,"history":r.history}));
                    } else {
                        sink.report(r);
                    }
                }
                continue;
            }
            if !ref_clean {
                continue;
            }
            for (step, (x, y)) in trace.iter().zip(t2.iter()).enumerate() {
                compared += 1;
                if x != y {
                    if !unique && rets_tie_explained(x, y) {
                        tie_div += 1;
                        break; // the choice among equal priorities is free; afterwards the histories differ legitimately
                    }
                    let v = Viol {
                        monitor: "M-HASHER",
                        op: hist.ops.get(step).map(|o| o.name()).unwrap_or("?").to_string(),
                        kind: kind.name(),
                        detail: format!("step {} returned {:?} under {} but {:?} under {}", step, x, ref_hasher, y, h),
                        props: vec!["C18"],
                    };
                    sink.viol(&v.props, &v.sig(), &v.detail, serde_json::json!({"mode":"hist","history":hh,"reference_hasher":ref_hasher}));
                    break;
                }
            }
            if trace.len() != t2.len() {
                let v = Viol { monitor: "M-HASHER", op: "trace".into(), kind: kind.name(), detail: format!("trace lengths differ under {} and {}", ref_hasher, h), props: vec!["C18"] };
                sink.viol(&v.props, &v.sig(), &v.detail, serde_json::json!({"mode":"hist","history":hh}));
            }
        }
        if samples.len() < 2 && hist.ops.len() > 8 {
            let mut hs = hist.clone();
            hs.ops.truncate(10);
            samples.push(serde_json::to_value(&hs).unwrap());
        }
        journal.line("EPDONE");
    }
    let mut st = stats.to_json();
    st["histories"] = serde_json::json!(n - start);
    st["tie_free_histories"] = serde_json::json!(tie_free);
    st["runs_by_hasher"] = serde_json::json!(per_hasher);
    st["return_values_compared_across_hashers"] = serde_json::json!(compared);
    st["divergences_explained_by_tie_choice"] = serde_json::json!(tie_div);
    st["samples"] = serde_json::Value::Array(samples);
    sink.finish_counts("hashers", stats.ops, stats.state_op.len() as u64, st);
    let _ = runs;
    0
}

// ------------------------------------------------------------------------------------------------
// C12 (std case): String items looked up through &String and through &str

/// mode strkeys: histories=N. Two identical queues of `String` items: one is addressed with the
/// owned key form (`&String`), the other with the borrowed form (`&str`); every result must agree
/// and match a BTreeMap model.
pub fn mode_strkeys(a: &Args) -> i32 {
    use priority_queue::{DoublePriorityQueue, PriorityQueue};
    use std::collections::BTreeMap;
    let seed = a.u("seed", 1);
    let shard = a.u("shard", 0);
    let n = a.u("histories", 200);
    let mut sink = Sink::default();
    let (mut ops, mut lookups) = (0u64, 0u64);
    let mut distinct = std::collections::HashSet::new();
    let mut samples = Vec::new();
    macro_rules! run_kind {
        ($Q:ident, $kind:expr, $rng:expr, $hist:expr) => {{
            let mut owned: $Q<String, i64> = $Q::new();
            let mut borrowed: $Q<String, i64> = $Q::new();
            let mut model: BTreeMap<String, i64> = BTreeMap::new();
            let uni = 2 + $rng.below(12);
            let steps = 20 + $rng.below(120);
            let mut bad: Option<String> = None;
            for step in 0..steps {
                let key = format!("k{}", $rng.below(uni));
                let ord = $rng.range(-3, 6);
                let kind_of_op = $rng.below(8);
                ops += 1;
                let (ra, rb, rm): (String, String, String) = match kind_of_op {
                    0 | 1 => {
                        let m = model.insert(key.clone(), ord);
                        (format!("{:?}", owned.push(key.clone(), ord)), format!("{:?}", borrowed.push(key.clone(), ord)), format!("{:?}", m))
                    }
                    2 => {
                        let m = model.get_mut(&key).map(|p| std::mem::replace(p, ord));
                        (format!("{:?}", owned.change_priority(&key, ord)), format!("{:?}", borrowed.change_priority(key.as_str(), ord)), format!("{:?}", m))
                    }
                    3 => {
                        let m = model.get_mut(&key).map(|p| *p += 1).is_some();
                        (format!("{:?}", owned.change_priority_by(&key, |p| *p += 1)), format!("{:?}", borrowed.change_priority_by(key.as_str(), |p| *p += 1)), format!("{:?}", m))
                    }
                    4 => {
                        let m = model.remove(&key).map(|p| (key.clone(), p));
                        (format!("{:?}", owned.remove(&key)), format!("{:?}", borrowed.remove(key.as_str())), format!("{:?}", m))
                    }
                    5 => {
                        let m = model.get(&key).map(|p| (&key, p));
                        (format!("{:?}", owned.get(&key)), format!("{:?}", borrowed.get(key.as_str())), format!("{:?}", m))
                    }
                    6 => {
                        let m = model.get(&key);
                        (format!("{:?}", owned.get_priority(&key)), format!("{:?}", borrowed.get_priority(key.as_str())), format!("{:?}", m))
                    }
                    _ => {
                        let m = model.get(&key).map(|p| (key.clone(), *p));
                        (
                            format!("{:?}", owned.get_mut(&key).map(|(k, p)| (k.clone(), *p))),
                            format!("{:?}", borrowed.get_mut(key.as_str()).map(|(k, p)| (k.clone(), *p))),
                            format!("{:?}", m),
                        )
                    }
                };
                lookups += 2;
                $hist.push(format!("{}:{}:{}", kind_of_op, key, ord));
                if ra != rb {
                    bad = Some(format!("step {} on {:?}: the owned key gives {} but the borrowed key gives {}", step, key, ra, rb));
                    break;
                }
                if ra != rm {
                    bad = Some(format!("step {} on {:?}: queue gives {} but the map model gives {}", step, key, ra, rm));
                    break;
                }
                if owned.len() != model.len() || borrowed.len() != model.len() {
                    bad = Some(format!("step {}: len {} / {} expected {}", step, owned.len(), borrowed.len(), model.len()));
                    break;
                }
            }
            if let Some(d) = bad {
                let v = Viol { monitor: "M-BORROWED", op: "lookup".into(), kind: $kind, detail: d, props: vec!["C12", "C03"] };
                sink.viol(&v.props, &v.sig(), &v.detail, serde_json::json!({"mode":"strkeys","kind":$kind,"history":$hist}));
            }
        }};
    }
    for i in 0..n {
        let mut rng = Rng::derive(seed, 17_000 + shard, i);
        let mut hist: Vec<String> = Vec::new();
        if i % 2 == 0 {
            run_kind!(PriorityQueue, "pq", rng, hist);
        } else {
            run_kind!(DoublePriorityQueue, "dpq", rng, hist);
        }
        distinct.insert(fnv(&hist.join(",")));
        if samples.len() < 2 {
            hist.truncate(10);
            samples.push(serde_json::json!({"ops (kind:key:priority)": hist}));
        }
    }
    sink.finish_counts("strkeys", ops, distinct.len() as u64, serde_json::json!({"string_key_ops": ops, "owned_vs_borrowed_comparisons": lookups / 2, "samples": samples}));
    0
}
