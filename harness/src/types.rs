//! Instrumented user types: all observation happens at the client boundary.
//!
//! * `Item`  — `Hash`/`Eq`/`Borrow<Key>` on the key only; carries a payload the queue cannot see.
//! * `Prio`  — `Ord`/`PartialEq` on `ord` only; carries a tag telling *which* priority object it is.
//! * every user callback goes through `cb(kind)`: a counter (cost monitor, crash-point numbering)
//!   and a fuse (panic at the k-th call of a kind).
//! * `Token` — live-object ledger: double drops and leaks are events.

use std::borrow::Borrow;
use std::cell::{Cell, RefCell};
use std::cmp::Ordering;
use std::hash::{BuildHasher, Hash, Hasher};

#[derive(Clone, Copy, Debug, PartialEq, Eq, serde::Serialize, serde::Deserialize)]
pub enum Cb {
    Cmp = 0,
    PEq = 1,
    Hash = 2,
    Eq = 3,
    Clone = 4,
    Pred = 5,
    IterNext = 6,
}
pub const NCB: usize = 7;
pub const ALL_CB: [Cb; NCB] = [Cb::Cmp, Cb::PEq, Cb::Hash, Cb::Eq, Cb::Clone, Cb::Pred, Cb::IterNext];

/// The payload of an injected panic.
pub struct FusePanic;

pub struct Ctx {
    counts: [Cell<u64>; NCB],
    fuse_kind: Cell<usize>,
    fuse_at: Cell<u64>, // absolute count at which to fire; u64::MAX = disarmed
    pub fuse_fired: Cell<bool>,
    next_tok: Cell<u64>,
    tok_state: RefCell<Vec<u8>>, // 0 unused, 1 live, 2 dropped
    pub live: Cell<i64>,
    pub double_drops: Cell<u64>,
    pub created: Cell<u64>,
    next_tag: Cell<u64>,
    next_payload: Cell<u64>,
}

thread_local! {
    pub static CTX: Ctx = Ctx {
        counts: Default::default(),
        fuse_kind: Cell::new(0),
        fuse_at: Cell::new(u64::MAX),
        fuse_fired: Cell::new(false),
        next_tok: Cell::new(0),
        tok_state: RefCell::new(Vec::new()),
        live: Cell::new(0),
        double_drops: Cell::new(0),
        created: Cell::new(0),
        next_tag: Cell::new(1),
        next_payload: Cell::new(1),
    };
    pub static LAST_PANIC: RefCell<Option<String>> = RefCell::new(None);
}

#[inline]
pub fn cb(kind: Cb) {
    CTX.with(|c| {
        let k = kind as usize;
        let n = c.counts[k].get();
        c.counts[k].set(n + 1);
        if c.fuse_at.get() == n && c.fuse_kind.get() == k && !std::thread::panicking() {
            c.fuse_at.set(u64::MAX);
            c.fuse_fired.set(true);
            std::panic::panic_any(FusePanic);
        }
    })
}

pub fn count(kind: Cb) -> u64 {
    CTX.with(|c| c.counts[kind as usize].get())
}
pub fn counts() -> [u64; NCB] {
    CTX.with(|c| {
        let mut r = [0; NCB];
        for i in 0..NCB {
            r[i] = c.counts[i].get();
        }
        r
    })
}
/// Arm the fuse: the k-th (0-based) call of `kind` from now on panics.
pub fn arm_fuse(kind: Cb, k: u64) {
    CTX.with(|c| {
        c.fuse_kind.set(kind as usize);
        c.fuse_at.set(c.counts[kind as usize].get() + k);
        c.fuse_fired.set(false);
    })
}
pub fn disarm_fuse() -> bool {
    CTX.with(|c| {
        c.fuse_at.set(u64::MAX);
        c.fuse_fired.get()
    })
}
pub fn fresh_tag() -> u64 {
    CTX.with(|c| {
        let t = c.next_tag.get();
        c.next_tag.set(t + 1);
        t
    })
}
pub fn fresh_payload() -> u64 {
    CTX.with(|c| {
        let t = c.next_payload.get();
        c.next_payload.set(t + 1);
        t
    })
}
/// Reset the ledger and value counters at the start of an episode (everything of the previous
/// episode must have been dropped, or deliberately leaked).
pub fn reset_episode() {
    CTX.with(|c| {
        c.fuse_at.set(u64::MAX);
        c.fuse_fired.set(false);
        c.next_tok.set(0);
        c.tok_state.borrow_mut().clear();
        c.live.set(0);
        c.double_drops.set(0);
        c.created.set(0);
        c.next_tag.set(1);
        c.next_payload.set(1);
    })
}
pub fn ledger_live() -> i64 {
    CTX.with(|c| c.live.get())
}
pub fn ledger_double_drops() -> u64 {
    CTX.with(|c| c.double_drops.get())
}
pub fn ledger_created() -> u64 {
    CTX.with(|c| c.created.get())
}

/// Install a panic hook that keeps injected panics silent and records the message and location
/// of every other panic for the report.
pub fn install_panic_hook() {
    std::panic::set_hook(Box::new(|info| {
        if info.payload().downcast_ref::<FusePanic>().is_some() {
            return;
        }
        let msg = if let Some(s) = info.payload().downcast_ref::<&str>() {
            s.to_string()
        } else if let Some(s) = info.payload().downcast_ref::<String>() {
            s.clone()
        } else {
            "<non-string panic payload>".to_string()
        };
        let loc = info
            .location()
            .map(|l| format!("{}:{}", l.file(), l.line()))
            .unwrap_or_default();
        if msg.contains("unsafe precondition") || msg.contains("cannot unwind") || msg.contains("misaligned") || msg.contains("null pointer") {
            // about to abort: leave the reason on stderr for the driver
            eprintln!("fatal (non-unwinding) panic: {} @ {}", msg, loc);
            eprintln!("{}", std::backtrace::Backtrace::force_capture());
        }
        if std::env::var_os("PQVERIF_PANIC_VERBOSE").is_some() {
            eprintln!("panic: {} @ {}\n{}", msg, loc, std::backtrace::Backtrace::force_capture());
        }
        LAST_PANIC.with(|p| *p.borrow_mut() = Some(format!("{} @ {}", msg, loc)));
    }));
}
pub fn take_last_panic() -> Option<String> {
    LAST_PANIC.with(|p| p.borrow_mut().take())
}

// ---------------------------------------------------------------------------------------------

pub struct Token {
    id: u64,
    #[cfg(feature = "boxtok")]
    _b: Box<u64>,
}
impl Token {
    pub fn new() -> Token {
        CTX.with(|c| {
            let id = c.next_tok.get();
            c.next_tok.set(id + 1);
            c.tok_state.borrow_mut().push(1);
            c.live.set(c.live.get() + 1);
            c.created.set(c.created.get() + 1);
            Token {
                id,
                #[cfg(feature = "boxtok")]
                _b: Box::new(id),
            }
        })
    }
}
impl Default for Token {
    fn default() -> Self {
        Token::new()
    }
}
impl Drop for Token {
    fn drop(&mut self) {
        // never panics; a token of an earlier episode (id beyond the table) is ignored
        let _ = CTX.try_with(|c| {
            let mut st = c.tok_state.borrow_mut();
            if let Some(s) = st.get_mut(self.id as usize) {
                if *s == 1 {
                    *s = 2;
                    c.live.set(c.live.get() - 1);
                } else {
                    c.double_drops.set(c.double_drops.get() + 1);
                }
            }
        });
    }
}
impl std::fmt::Debug for Token {
    fn fmt(&self, f: &mut std::fmt::Formatter<'_>) -> std::fmt::Result {
        write!(f, "t{}", self.id)
    }
}

// ---------------------------------------------------------------------------------------------

/// Borrowed lookup form of an `Item`.
#[repr(transparent)]
#[derive(Debug)]
pub struct Key(pub u32);
impl Hash for Key {
    fn hash<H: Hasher>(&self, state: &mut H) {
        cb(Cb::Hash);
        self.0.hash(state)
    }
}
impl PartialEq for Key {
    fn eq(&self, o: &Key) -> bool {
        cb(Cb::Eq);
        self.0 == o.0
    }
}
impl Eq for Key {}

#[derive(Debug)]
pub struct Item {
    pub key: Key,
    pub payload: u64,
    #[allow(dead_code)]
    tok: Token,
}
impl Item {
    /// an item with a fresh payload
    pub fn new(id: u32) -> Item {
        Item { key: Key(id), payload: fresh_payload(), tok: Token::new() }
    }
    pub fn with_payload(id: u32, payload: u64) -> Item {
        Item { key: Key(id), payload, tok: Token::new() }
    }
    pub fn id(&self) -> u32 {
        self.key.0
    }
}
impl Hash for Item {
    fn hash<H: Hasher>(&self, state: &mut H) {
        self.key.hash(state)
    }
}
impl PartialEq for Item {
    fn eq(&self, o: &Item) -> bool {
        self.key == o.key
    }
}
impl Eq for Item {}
impl Borrow<Key> for Item {
    fn borrow(&self) -> &Key {
        &self.key
    }
}
impl Clone for Item {
    fn clone(&self) -> Item {
        cb(Cb::Clone);
        Item { key: Key(self.key.0), payload: self.payload, tok: Token::new() }
    }
}

#[derive(Debug)]
pub struct Prio {
    pub ord: i64,
    pub tag: u64,
    #[allow(dead_code)]
    tok: Token,
}
impl Prio {
    /// a priority object with a fresh tag
    pub fn new(ord: i64) -> Prio {
        Prio { ord, tag: fresh_tag(), tok: Token::new() }
    }
    pub fn with_tag(ord: i64, tag: u64) -> Prio {
        Prio { ord, tag, tok: Token::new() }
    }
}
impl Ord for Prio {
    fn cmp(&self, o: &Prio) -> Ordering {
        cb(Cb::Cmp);
        self.ord.cmp(&o.ord)
    }
}
impl PartialOrd for Prio {
    fn partial_cmp(&self, o: &Prio) -> Option<Ordering> {
        Some(self.cmp(o))
    }
}
impl PartialEq for Prio {
    fn eq(&self, o: &Prio) -> bool {
        cb(Cb::PEq);
        self.ord == o.ord
    }
}
impl Eq for Prio {}
impl Clone for Prio {
    fn clone(&self) -> Prio {
        cb(Cb::Clone);
        Prio { ord: self.ord, tag: self.tag, tok: Token::new() }
    }
}

// serde: an item is its id, a priority its `ord` (payload and tag are not part of the value)
impl serde::Serialize for Item {
    fn serialize<S: serde::Serializer>(&self, s: S) -> Result<S::Ok, S::Error> {
        s.serialize_u32(self.key.0)
    }
}
impl<'de> serde::Deserialize<'de> for Item {
    fn deserialize<D: serde::Deserializer<'de>>(d: D) -> Result<Item, D::Error> {
        u32::deserialize(d).map(Item::new)
    }
}
impl serde::Serialize for Prio {
    fn serialize<S: serde::Serializer>(&self, s: S) -> Result<S::Ok, S::Error> {
        s.serialize_i64(self.ord)
    }
}
impl<'de> serde::Deserialize<'de> for Prio {
    fn deserialize<D: serde::Deserializer<'de>>(d: D) -> Result<Prio, D::Error> {
        i64::deserialize(d).map(Prio::new)
    }
}

// ---------------------------------------------------------------------------------------------

/// Legal `size_hint` shapes: always `lower <= remaining <= upper`.
#[derive(Clone, Copy, Debug, PartialEq, Eq, serde::Serialize, serde::Deserialize)]
pub enum Hint {
    Exact,
    ZeroNone,
    ZeroSomeRem,
    RemNone,
    ZeroSomeRemPlus(usize),
    HalfSomeRemPlus(usize),
    ZeroSomeHuge, // upper 2^40
    RemSomeHuge,  // lower rem, upper 2^40
    ZeroSomeMax,  // upper usize::MAX
    RemSomeMax,
    OneNone, // lower min(1,rem)
}
pub const SAFE_HINTS: [Hint; 8] = [
    Hint::Exact,
    Hint::ZeroNone,
    Hint::ZeroSomeRem,
    Hint::RemNone,
    Hint::ZeroSomeRemPlus(1),
    Hint::ZeroSomeRemPlus(64),
    Hint::HalfSomeRemPlus(7),
    Hint::OneNone,
];
/// hints whose upper bound is far above what is yielded (legal, but dangerous for an
/// implementation that reserves by the upper bound)
pub const HUGE_HINTS: [Hint; 4] = [Hint::ZeroSomeHuge, Hint::RemSomeHuge, Hint::ZeroSomeMax, Hint::RemSomeMax];

impl Hint {
    pub fn of(self, rem: usize) -> (usize, Option<usize>) {
        match self {
            Hint::Exact => (rem, Some(rem)),
            Hint::ZeroNone => (0, None),
            Hint::ZeroSomeRem => (0, Some(rem)),
            Hint::RemNone => (rem, None),
            Hint::ZeroSomeRemPlus(k) => (0, Some(rem + k)),
            Hint::HalfSomeRemPlus(k) => (rem / 2, Some(rem + k)),
            Hint::ZeroSomeHuge => (0, Some(1usize << 40)),
            Hint::RemSomeHuge => (rem, Some(1usize << 40)),
            Hint::ZeroSomeMax => (0, Some(usize::MAX)),
            Hint::RemSomeMax => (rem, Some(usize::MAX)),
            Hint::OneNone => (rem.min(1), None),
        }
    }
}

/// An iterator over owned pairs that reports a chosen legal `size_hint` and whose `next` is a
/// user callback (countable, fusible).
pub struct HintIter {
    inner: std::vec::IntoIter<(Item, Prio)>,
    hint: Hint,
}
impl HintIter {
    pub fn new(v: Vec<(Item, Prio)>, hint: Hint) -> HintIter {
        HintIter { inner: v.into_iter(), hint }
    }
}
impl Iterator for HintIter {
    type Item = (Item, Prio);
    fn next(&mut self) -> Option<(Item, Prio)> {
        cb(Cb::IterNext);
        self.inner.next()
    }
    fn size_hint(&self) -> (usize, Option<usize>) {
        self.hint.of(self.inner.len())
    }
}

// ---------------------------------------------------------------------------------------------
// hashers

/// Every item hashes to the same value.
#[derive(Clone, Default, Debug)]
pub struct ConstState;
pub struct ConstHasher;
impl Hasher for ConstHasher {
    fn finish(&self) -> u64 {
        0
    }
    fn write(&mut self, _: &[u8]) {}
}
impl BuildHasher for ConstState {
    type Hasher = ConstHasher;
    fn build_hasher(&self) -> ConstHasher {
        ConstHasher
    }
}

/// Only the low 2 bits of the id survive: heavy but not total collisions.
#[derive(Clone, Default, Debug)]
pub struct Low2State;
pub struct Low2Hasher(u64);
impl Hasher for Low2Hasher {
    fn finish(&self) -> u64 {
        self.0 & 3
    }
    fn write(&mut self, b: &[u8]) {
        for &x in b {
            self.0 = self.0.wrapping_add(x as u64);
        }
    }
}
impl BuildHasher for Low2State {
    type Hasher = Low2Hasher;
    fn build_hasher(&self) -> Low2Hasher {
        Low2Hasher(0)
    }
}

pub type StdRandom = std::collections::hash_map::RandomState;
pub type FixedState = std::hash::BuildHasherDefault<std::collections::hash_map::DefaultHasher>;
pub type XxState = std::hash::BuildHasherDefault<twox_hash::XxHash64>;
pub type BrownState = hashbrown::hash_map::DefaultHashBuilder;
