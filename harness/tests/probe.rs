use pqverif::api::*;
use pqverif::types::*;
#[test]
fn probes() {
    let mut p = PqOf::<FixedState>::q_new();
    let mut d = DpqOf::<FixedState>::q_new();
    for i in 0..5 { p.push(Item::new(i), Prio::new(i as i64)); d.push(Item::new(i), Prio::new(i as i64)); }
    {
        let mut it = QueueApi::iter_mut(&mut p);
        assert!(<PqOf<FixedState> as QueueApi>::im_len(&it).is_none());
        assert!(<PqOf<FixedState> as QueueApi>::im_next_back(&mut it).is_none());
        assert!(!<PqOf<FixedState> as QueueApi>::im_fused(&it));
    }
    {
        let mut it = QueueApi::iter_mut(&mut d);
        assert_eq!(<DpqOf<FixedState> as QueueApi>::im_len(&it), Some(5));
        assert!(<DpqOf<FixedState> as QueueApi>::im_fused(&it));
        let _ = it.next();
        assert!(<DpqOf<FixedState> as QueueApi>::im_next_back(&mut it).is_some());
    }
    let mut s = p.q_clone().into_sorted_iter_q();
    assert!(<PqOf<FixedState> as QueueApi>::so_len(&s).is_none());
    assert!(<PqOf<FixedState> as QueueApi>::so_next_back(&mut s).is_none());
    let mut s = d.q_clone().into_sorted_iter_q();
    assert_eq!(<DpqOf<FixedState> as QueueApi>::so_len(&s), Some(5));
    assert!(<DpqOf<FixedState> as QueueApi>::so_next_back(&mut s).unwrap().is_some());
    println!("{:?}", <PqOf<FixedState> as QueueApi>::im_adaptor_len(&mut p, 0, 2));
    assert_eq!(pqverif::probe_len!(p.iter()), Some(5));
    assert_eq!(pqverif::probe_len!(p.iter().filter(|_| true)), None);
}
