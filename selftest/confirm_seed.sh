#!/bin/sh
# Development tool: independently confirm a seeded change in a scratch worktree outside /repo and /verif.
# usage: confirm_seed.sh <ID> <dir with patch.diff, tests/demo_<ID>.rs or demo_<ID>.rs>  [extra cargo test flags for the demo]
ID=$1; SRC=$2; FLAGS=$3
W=/tmp/confirm-$ID
rm -rf $W; git -C /repo worktree prune
git -C /repo worktree add -q --detach $W HEAD || exit 2
cp /repo/Cargo.lock $W/
DEMO=$SRC/tests/demo_$ID.rs; [ -f $DEMO ] || DEMO=$SRC/demo_$ID.rs
cd $W
res=""
# (1) suite passes with the patch
git apply $SRC/patch.diff || { echo "patch does not apply"; exit 2; }
t1=$(cargo test --workspace --no-fail-fast --offline 2>&1 | grep -E "^test result" | awk '{p+=$4; f+=$6} END{print p" passed "f" failed"}')
t2=$(cargo test --offline --features serde 2>&1 | grep -E "^test result" | awk '{p+=$4; f+=$6} END{print p" passed "f" failed"}')
cargo build --offline --no-default-features >/dev/null 2>&1 && nb=ok || nb=FAIL
# (2) demo fails with the patch
cp $DEMO tests/demo_$ID.rs
cargo test --offline $FLAGS --test demo_$ID >/tmp/confirm-$ID.with.log 2>&1; with=$?
# (3) demo passes without the patch
git apply -R $SRC/patch.diff
cargo test --offline $FLAGS --test demo_$ID >/tmp/confirm-$ID.without.log 2>&1; without=$?
echo "$ID: suite(default)=[$t1] suite(serde)=[$t2] no_std_build=$nb demo_with_patch_rc=$with demo_without_patch_rc=$without"
cd /; git -C /repo worktree remove --force $W
