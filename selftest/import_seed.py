#!/usr/bin/env python3
"""import a seeded change produced in /tmp/seed/<ID> into /verif/seeded/<name>/"""
import json, os, shutil, sys
ID, name = sys.argv[1], sys.argv[2]
confirm = sys.argv[3] if len(sys.argv) > 3 else ""
src = os.path.join(os.environ.get("SEEDROOT", "/tmp/seed"), ID)
dst = "/verif/seeded/%s" % name
os.makedirs(dst, exist_ok=True)
shutil.copy(os.path.join(src, "patch.diff"), dst)
shutil.copy(os.path.join(src, "tests", "demo_%s.rs" % ID), os.path.join(dst, "demo_%s.rs" % ID))
meta_txt = open(os.path.join(src, "meta.txt")).read() if os.path.exists(os.path.join(src, "meta.txt")) else ""
json.dump({
    "property": ID,
    "origin": "independent sub-agent given only the property text and a scratch worktree",
    "description_by_author": meta_txt,
    "confirmed": confirm,
    "checks_run": {},
}, open(os.path.join(dst, "meta.json"), "w"), indent=1)
print("imported", dst)
