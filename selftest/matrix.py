#!/usr/bin/env python3
"""Development tool: detection matrix. Applies seeded changes one at a time in a scratch copy of
/repo and /verif under $PQMUT_ROOT (default /var/tmp/pqmut) and runs the quick checks in lite
mode (ubcheck workloads only; C05 is skipped: it needs the release build and cachegrind), recording
for every check whether it fired and with which signatures. Two questions are answered per seed:
does the check of the targeted property fire, and do the checks of properties the change does NOT
violate stay silent.

usage: matrix.py [--seeds C01-a,C02-b | --stride K --offset O] [--checks C01,C02] [--out file]
Nothing is ever applied to /repo itself."""
import json, os, sys
sys.path.insert(0, os.path.dirname(os.path.abspath(__file__)))
import mutate

CHECKS = ["C%02d" % i for i in range(1, 19) if i != 5]


def main():
    args = sys.argv[1:]

    def opt(name, default):
        return args[args.index(name) + 1] if name in args else default

    stride, offset = int(opt("--stride", "1")), int(opt("--offset", "0"))
    outp = opt("--out", os.path.join(mutate.ROOT, "matrix.jsonl"))
    checks = opt("--checks", ",".join(CHECKS)).split(",")
    seeds = sorted(d for d in os.listdir("/verif/seeded") if os.path.exists("/verif/seeded/%s/patch.diff" % d))[offset::stride]
    if "--seeds" in args:
        seeds = opt("--seeds", "").split(",")
    mutate.setup()
    mutate.sh("git init -q; git add -A >/dev/null 2>&1; git commit -qm base >/dev/null 2>&1", mutate.REPO)
    for k, sd in enumerate(seeds):
        mutate.sh("git checkout -q -- .", mutate.REPO)
        rc, out = mutate.sh("git apply --unsafe-paths /verif/seeded/%s/patch.diff" % sd, mutate.REPO)
        if rc != 0:
            print("[%d/%d] %s: patch does not apply: %s" % (k + 1, len(seeds), sd, out.strip()[:200]), flush=True)
            continue
        row = {"seed": sd, "fired": {}, "inconclusive": []}
        for c in checks:
            rc, out = mutate.sh("./check %s quick 2>&1" % c, mutate.VERIF, timeout=2400, env=dict(mutate.ENV, PQVERIF_LITE="1"))
            if rc == 1:
                row["fired"][c] = [l.strip()[11:130] for l in out.splitlines() if l.strip().startswith("signature:")][:6]
            elif rc != 0:
                row["inconclusive"].append(c)
        mutate.sh("git checkout -q -- .", mutate.REPO)
        with open(outp, "a") as f:
            f.write(json.dumps(row) + "\n")
        print("[%d/%d] %s fired=%s inconclusive=%s" % (k + 1, len(seeds), sd, ",".join(row["fired"]), ",".join(row["inconclusive"])), flush=True)


if __name__ == "__main__":
    main()
