#!/usr/bin/env python3
"""Development tool: detection matrix. Applies every seeded change (in a scratch copy of /repo and
/verif under /var/tmp) and runs ALL quick checks in lite mode (ubcheck workloads only), recording
which checks fire. usage: matrix.py [--stride K --offset O] [--out file]"""
import json, os, subprocess, sys, time
sys.path.insert(0, os.path.dirname(os.path.abspath(__file__)))
import mutate

CHECKS = ["C%02d" % i for i in range(1, 19)]


def main():
    args = sys.argv[1:]
    def opt(name, default):
        return args[args.index(name) + 1] if name in args else default
    stride, offset = int(opt("--stride", "1")), int(opt("--offset", "0"))
    outp = opt("--out", os.path.join(mutate.ROOT, "matrix.jsonl"))
    mutate.setup()
    seeds = sorted(d for d in os.listdir("/verif/seeded") if os.path.exists("/verif/seeded/%s/patch.diff" % d))[offset::stride]
    with open(outp, "a") as f:
        for k, sd in enumerate(seeds):
            t0 = time.time()
            rc, out = mutate.sh("git init -q 2>/dev/null; git apply --unsafe-paths /verif/seeded/%s/patch.diff" % sd, mutate.REPO)
            if rc != 0:
                rc, out = mutate.sh("patch -p1 < /verif/seeded/%s/patch.diff" % sd, mutate.REPO)
            row = {"seed": sd, "fired": [], "inconclusive": []}
            for c in CHECKS:
                if c == "C05":
                    continue  # needs the release build and cachegrind; not part of the lite matrix
                rc, out = mutate.sh("./check %s quick 2>&1" % c, mutate.VERIF, timeout=2400, env=dict(mutate.ENV, PQVERIF_LITE="1"))
                if rc == 1:
                    row["fired"].append(c)
                elif rc != 0:
                    row["inconclusive"].append(c)
            row["seconds"] = round(time.time() - t0)
            mutate.sh("patch -R -p1 < /verif/seeded/%s/patch.diff" % sd, mutate.REPO)
            f.write(json.dumps(row) + "\n")
            f.flush()
            print("[%d/%d] %s fired=%s inconclusive=%s (%ds)" % (k + 1, len(seeds), sd, ",".join(row["fired"]), ",".join(row["inconclusive"]), row["seconds"]), flush=True)


if __name__ == "__main__":
    main()
