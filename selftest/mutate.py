#!/usr/bin/env python3
"""Development tool (not a registered check): automatic mutation campaign.

Works entirely on scratch copies under /var/tmp/pqmut (never touches /repo or /verif): generates
first-order mutants of the crate's sources (relational / arithmetic / boolean operator changes,
statement deletions, min/max and left/right swaps), keeps those that still compile and pass the
repository's own tests, and runs the quick checks (ubcheck workloads only, PQVERIF_LITE=1) against
each until one fires. Survivors are listed for manual triage (equivalent mutant or blind spot).

usage: mutate.py [--limit N] [--stride K] [--offset O] [--out results.jsonl] [--checks C04,C01,...]
"""
import json, os, re, shutil, subprocess, sys, time

ROOT = os.environ.get("PQMUT_ROOT", "/var/tmp/pqmut")
REPO = os.path.join(ROOT, "repo")
VERIF = os.path.join(ROOT, "verif")
FILES = ["src/store.rs", "src/priority_queue/mod.rs", "src/double_priority_queue/mod.rs", "src/priority_queue/iterators.rs", "src/double_priority_queue/iterators.rs", "src/core_iterators.rs"]
DEFAULT_CHECKS = ["C04", "C01", "C02", "C03", "C08", "C07", "C13", "C09", "C06", "C11", "C12", "C14", "C15", "C16", "C17", "C18", "C10"]
ENV = dict(os.environ, CARGO_NET_OFFLINE="true", RUST_BACKTRACE="0")


def sh(cmd, cwd, timeout=1800, env=None):
    p = subprocess.run(cmd, cwd=cwd, shell=True, stdout=subprocess.PIPE, stderr=subprocess.STDOUT, text=True, timeout=timeout, env=env or ENV)
    return p.returncode, p.stdout


def setup():
    shutil.rmtree(ROOT, ignore_errors=True)
    os.makedirs(ROOT)
    sh("rsync -a --exclude target --exclude .git /repo/ %s/" % REPO, "/")
    sh("rsync -a --exclude target --exclude replays --exclude .git --exclude seeded /verif/ %s/" % VERIF, "/")
    ct = os.path.join(VERIF, "harness", "Cargo.toml")
    s = open(ct).read().replace('path = "/repo"', 'path = "%s"' % REPO)
    open(ct, "w").write(s)
    rc, out = sh("cargo test --workspace --no-fail-fast --offline 2>&1 | grep -E '^test result' ", REPO)
    print("baseline suite:", " | ".join(l[13:40] for l in out.splitlines()))


SWAPS = [("pop_min()", "pop_max()"), ("pop_max()", "pop_min()"), ("min_by_key", "max_by_key"), ("max_by_key", "min_by_key"), ("heapify_min(", "heapify_max("), ("heapify_max(", "heapify_min("),
         ("bubble_up_min(", "bubble_up_max("), ("bubble_up_max(", "bubble_up_min("), ("left(", "right("), ("right(", "left("), ("peek_min()", "peek_max()"), ("peek_max()", "peek_min()"),
         ("find_min()", "find_max()"), ("find_max()", "find_min()"), ("next_back()", "next()"), (".swap_remove(", ".remove("), ("Position(0)", "Position(1)"), ("Position(1)", "Position(2)"),
         ("% 2 == 0", "% 2 == 1"), (".is_some()", ".is_none()"), (".is_none()", ".is_some()"), ("map_or(true", "map_or(false")]
RELS = [(" < ", " <= "), (" <= ", " < "), (" > ", " >= "), (" >= ", " > "), (" == ", " != "), (" != ", " == "), (" < ", " > "), (" > ", " < ")]
ARITH = [("+ 1", "+ 0"), ("- 1", "- 0"), ("+ 1", "+ 2"), ("- 1", "- 2"), ("+ 2", "+ 1"), ("* 2", "* 1"), ("/ 2", "/ 1"), ("+= 1", "+= 0"), ("-= 1", "-= 0")]
BOOL = [(" && ", " || "), (" || ", " && ")]


SWAPS2 = [("self.up_heapify(pos)", "self.heapify(pos)"), ("self.up_heapify(i)", "self.heapify(i)"), ("self.heapify(pos)", "self.heapify(i)"), ("self.heapify(i)", "self.heapify(pos)"),
          ("self.heapify(Position(0))", "self.heapify(Position(1))"), ("left(r), ", ""), ("right(l), ", ""), (", right(r)]", "]"), ("[l, r, ", "[l, "),
          ("self.len()", "(self.len() - 1)"), ("self.len()", "(self.len() + 1)"), ("self.store.size", "self.store.map.len()"), ("self.size", "self.map.len()"), ("self.map.len()", "self.size"),
          (".rev()", ""), ("0..=", "0.."), ("parent(position)", "position"), ("parent(parent(position))", "parent(position)"), ("parent(i)", "i"), ("level(i)", "(level(i) + 1)"), ("level(position)", "(level(position) + 1)"),
          ("head.0", "position.0"), ("position.0", "head.0"), ("i.0 <", "pos.0 <"), ("pos.0 <", "i.0 <"), ("Position(i)", "Position(0)"), ("Index(i)", "Index(0)"), ("other.size", "self.size"), ("self.size", "other.size"),
          ("heap_pos.0", "qpi.0"), ("qpi.0", "heap_pos.0"), ("swap_remove_index", "shift_remove_index"), ("swap_remove_full", "shift_remove_full"), ("pop_min", "pop_max"), ("(min, _)", "(_, Some(min))"),
          ("unwrap_or(true)", "unwrap_or(false)"), ("Some(len)", "Some(len + 1)"), ("(len, Some(len))", "(0, Some(len))"), ("iter.len()", "iter.len() + 1"), (".next_back()", ".next()"), ("get_or_insert_with", "insert")]
SECOND = False


def mutants():
    if SECOND:
        return mutants2()
    return mutants1()


def mutants2():
    out = []
    for f in FILES:
        lines = open(os.path.join(REPO, f)).read().split("\n")
        in_test = False
        for i, l in enumerate(lines):
            st = l.strip()
            if st.startswith("#[cfg(test)]"):
                in_test = True
            if in_test or st.startswith("//") or st.startswith("#[") or not st:
                continue
            for a, b in SWAPS2:
                if a in l:
                    nl = l.replace(a, b, 1)
                    if nl != l:
                        out.append({"file": f, "line": i + 1, "op": a + " -> " + (b or "<removed>"), "orig": l.strip(), "new": nl.strip(), "_new_line": nl})
    return out


def mutants1():
    out = []
    for f in FILES:
        lines = open(os.path.join(REPO, f)).read().split("\n")
        in_test = False
        for i, l in enumerate(lines):
            st = l.strip()
            if st.startswith("#[cfg(test)]"):
                in_test = True
            if in_test or st.startswith("//") or st.startswith("#[") or not st:
                continue
            if any(k in st for k in ("impl<", "fn ", "where", "struct ", "type ", "use ", "-> ", "pub mod", "derive")) and ";" not in st:
                continue
            cands = []
            for a, b in RELS + ARITH + BOOL + SWAPS:
                if a in l:
                    cands.append((a + " -> " + b, l.replace(a, b, 1)))
            # statement deletion
            if re.match(r"^\s*(self|store|this|pq)\.[A-Za-z_.]+\(.*\);\s*$", l) or re.match(r"^\s*[a-z_.]*size\s*[-+]=\s*1;\s*$", l) or re.match(r"^\s*\*?[a-z_.]+\s*=\s*[^=].*;\s*$", l):
                cands.append(("delete statement", re.sub(r"^(\s*)", r"\1// MUTANT-DELETED ", l, 1)))
            if re.search(r"\bbreak;", l):
                cands.append(("break -> nothing", l.replace("break;", "{}", 1)))
            for op, nl in cands:
                if nl != l:
                    out.append({"file": f, "line": i + 1, "op": op, "orig": l.strip(), "new": nl.strip(), "_new_line": nl})
    return out


def run_one(m, checks):
    path = os.path.join(REPO, m["file"])
    orig = open(path).read()
    lines = orig.split("\n")
    lines[m["line"] - 1] = m["_new_line"]
    open(path, "w").write("\n".join(lines))
    res = dict((k, v) for k, v in m.items() if not k.startswith("_"))
    t0 = time.time()
    try:
        rc, out = sh("cargo build --offline 2>&1 | tail -3", REPO)
        if "error" in out and "could not compile" in out:
            res["status"] = "does-not-compile"
            return res
        rc, out = sh("cargo test --workspace --no-fail-fast --offline 2>&1 | grep -E '^test result|error(\\[|:)' ", REPO, timeout=900)
        failed = sum(int(x) for x in re.findall(r"(\d+) failed", out))
        if failed or "error" in out or "test result" not in out:
            res["status"] = "killed-by-suite"
            return res
        res["status"] = "survived"
        res["checks"] = {}
        for c in checks:
            rc, out = sh("./check %s quick 2>&1" % c, VERIF, timeout=2400, env=dict(ENV, PQVERIF_LITE="1"))
            out = "\n".join(out.splitlines()[-25:])
            verdict = {0: "silent", 1: "FIRED", 2: "inconclusive"}.get(rc, "rc%d" % rc)
            res["checks"][c] = verdict
            if rc == 1:
                sigs = [l.strip()[11:140] for l in out.splitlines() if l.strip().startswith("signature:")]
                res["status"] = "killed-by-check"
                res["killed_by"] = c
                res["signature"] = sigs[:2]
                break
            if rc == 2:
                res["inconclusive_tail"] = out[-400:]
        return res
    except subprocess.TimeoutExpired:
        res["status"] = "timeout"
        return res
    finally:
        open(path, "w").write(orig)
        res["seconds"] = round(time.time() - t0, 1)


def main():
    args = sys.argv[1:]
    def opt(name, default):
        return args[args.index(name) + 1] if name in args else default
    limit, stride, offset = int(opt("--limit", "100000")), int(opt("--stride", "1")), int(opt("--offset", "0"))
    outp = opt("--out", os.path.join(ROOT, "results.jsonl"))
    checks = opt("--checks", ",".join(DEFAULT_CHECKS)).split(",")
    global SECOND
    SECOND = "--second" in args
    if "--no-setup" not in args:
        setup()
    ms = mutants()
    print("mutants generated:", len(ms))
    if "--list" in args:
        for m in ms:
            print(m["file"], m["line"], m["op"], "|", m["orig"][:80])
        return
    todo = ms[offset::stride][:limit]
    print("running", len(todo))
    with open(outp, "a") as f:
        for k, m in enumerate(todo):
            r = run_one(m, checks)
            f.write(json.dumps(r) + "\n")
            f.flush()
            print("[%d/%d] %s:%d %s -> %s %s (%.0fs)" % (k + 1, len(todo), m["file"], m["line"], m["op"], r["status"], r.get("killed_by", ""), r["seconds"]), flush=True)


if __name__ == "__main__":
    main()
