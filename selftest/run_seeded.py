#!/usr/bin/env python3
"""Development tool (not a registered check): apply one seeded change to /repo, run checks against
it, undo it straight afterwards. usage: run_seeded.py <seeded-dir> [ID ...] [--tier quick|thorough]

Prints, per check, whether it fired (exit 1 with a VIOLATION line), stayed silent or was
inconclusive, and the time it took."""
import json, os, subprocess, sys, time

VERIF = os.path.dirname(os.path.dirname(os.path.abspath(__file__)))


def main():
    args = [a for a in sys.argv[1:] if not a.startswith("--")]
    tier = "quick"
    if "--tier" in sys.argv:
        tier = sys.argv[sys.argv.index("--tier") + 1]
        args = [a for a in args if a != tier]
    d = os.path.abspath(args[0])
    patch = os.path.join(d, "patch.diff")
    meta = {}
    if os.path.exists(os.path.join(d, "meta.json")):
        meta = json.load(open(os.path.join(d, "meta.json")))
    ids = args[1:] or [meta.get("property")]
    st = subprocess.run(["git", "-C", "/repo", "status", "--porcelain", "--untracked-files=no"], stdout=subprocess.PIPE, text=True).stdout.strip()
    if st:
        print("refusing: /repo has local modifications:\n" + st)
        return 2
    subprocess.check_call(["git", "-C", "/repo", "apply", patch])
    results = {}
    try:
        for pid in ids:
            t0 = time.time()
            p = subprocess.run([os.path.join(VERIF, "check"), pid, tier], cwd=VERIF, stdout=subprocess.PIPE, stderr=subprocess.STDOUT, text=True)
            dt = time.time() - t0
            sigs = [l.strip() for l in p.stdout.splitlines() if l.strip().startswith("signature:")]
            verdict = {0: "SILENT", 1: "FIRED", 2: "INCONCLUSIVE"}.get(p.returncode, "rc=%d" % p.returncode)
            results[pid] = {"verdict": verdict, "seconds": round(dt, 1), "signatures": sigs[:6], "n_signatures": len(sigs)}
            print("%s on %s: %s in %.0fs (%d signatures)" % (pid, os.path.basename(d), verdict, dt, len(sigs)))
            for s in sigs[:4]:
                print("    " + s[:200])
            if verdict == "INCONCLUSIVE":
                print(p.stdout[-800:])
    finally:
        subprocess.check_call(["git", "-C", "/repo", "checkout", "--", "."])
        # evidence written while a seeded change was applied describes the mutant, not the repository
        subprocess.call(["git", "-C", VERIF, "checkout", "--", "evidence"])
    print(json.dumps(results))
    return 0


if __name__ == "__main__":
    sys.exit(main())
