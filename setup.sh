#!/bin/sh
# Offline build of every flavour of the harness (ubcheck, release, boxed-token release, ASan, Miri SB/TB).
cd "$(dirname "$0")" && exec ./check --setup
